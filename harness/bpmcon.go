package main

// bpmcon.go: concurrent buffer pool workload for C13 (consim workload "bpm").
//
// 2-5 user tasks use the real BufferPoolManager directly under the seeded scheduler; every page has
// exactly one owner task, which is the only one that writes it, so every fetch has an exact
// expected answer (the owner's latest bytes) without a linearizability search. Flusher tasks call
// FlushPage / FlushAllDirtyPages / FlushAllPages on anything at any time (a flush never changes what
// a page contains). The pool is smaller than the set of live pages, so frames are evicted and
// re-read while other tasks hold pins, modify and unpin; page ids are deallocated and handed out again.

import (
	"bytes"
	"fmt"
	"os"
	"strings"

	"github.com/ryogrid/SamehadaDB/lib/storage/buffer"
	"github.com/ryogrid/SamehadaDB/lib/storage/disk"
	"github.com/ryogrid/SamehadaDB/lib/storage/page"
	"github.com/ryogrid/SamehadaDB/lib/types"
	"verif/simrt"
)

func (cr *ConRun) runBpm() {
	simrt.SeedRun(cr.Seed, false)
	wr := newRng(simrt.Mix(cr.Seed, 46))
	nT := 2 + wr.Intn(4)
	nFlush := 1 + wr.Intn(2)
	maxPins := 1 + wr.Intn(2) // pins a user task holds at the same time
	// every task may hold maxPins pins plus one transient pin inside a call (a flush may pin the page it
	// writes); the pool must always have one frame that can be given up
	frames := nT*(maxPins+1) + nFlush + 1 + wr.Intn(4)
	opsPer := 10 + wr.Intn(50)
	virtual := wr.Chance(0.3)
	path := cr.Dir + "/b"
	removeDBFiles(path)
	var violations []Violation
	addV := func(class, detail string) {
		violations = append(violations, Violation{Property: "C13", Class: class, Detail: detail})
	}
	// per-task op programs are drawn up front (the schedule, not the program, is what the scheduler decides)
	type bop struct {
		kind int
		a, b int
		fill byte
	}
	progs := make([][]bop, nT)
	for t := range progs {
		for j := 0; j < opsPer; j++ {
			progs[t] = append(progs[t], bop{wr.Intn(20), wr.Intn(1 << 20), wr.Intn(1 << 20), byte(1 + wr.Intn(250))})
		}
	}
	flushProg := make([][]bop, nFlush)
	for f := range flushProg {
		for j := 0; j < opsPer; j++ {
			flushProg[f] = append(flushProg[f], bop{wr.Intn(10), wr.Intn(1 << 20), 0, 0})
		}
	}
	var rec *disk.SimRecorder
	if idxTrace {
		rec = &disk.SimRecorder{}
		disk.SimRec = rec
		defer func() { disk.SimRec = nil }()
	}
	cr.Res = simrt.Run(cr.simConfig(), func() {
		var dm disk.DiskManager
		if virtual {
			dm = disk.NewVirtualDiskManagerImpl(path + ".db")
		} else {
			dm = disk.NewDiskManagerImpl(path + ".db")
		}
		lm := newLogManager(&dm)
		lm.ActivateLogging()
		bpm := buffer.NewBufferPoolManager(uint32(frames), dm, lm)
		if idxTrace {
			fmt.Fprintf(os.Stderr, "bpm run: tasks=%d flushers=%d maxPins=%d frames=%d virtual=%v\n", nT, nFlush, maxPins, frames, virtual)
		}
		owner := map[int32]int{}     // live page id -> owning task
		latest := map[int32][]byte{} // live page id -> bytes last stored by the owner
		allIDs := []int32{}          // every id ever handed out (targets for the flushers)
		stamp := func(b []byte, id int32, fill byte, ver int) {
			for i := range b {
				b[i] = 0
			}
			// recognisable content: id, version and a fill pattern spread over the page
			copy(b[64:], []byte(fmt.Sprintf("page %d v%d", id, ver)))
			for i := 256; i < len(b); i += 97 {
				b[i] = fill
			}
		}
		var tasks []*simrt.Task
		for t := 0; t < nT; t++ {
			t := t
			tasks = append(tasks, simrt.S.Spawn(fmt.Sprintf("user-%d", t), func() {
				mine := []int32{}
				held := map[int32]*page.Page{} // pages this task holds a pin on
				heldDirty := map[int32]bool{}  // ... and whether it changed them since it took the pin
				ver := 0
				verify := func(id int32, pg *page.Page, where string) bool {
					if int32(pg.GetPageID()) != id {
						addV("pinned-page-evicted", fmt.Sprintf("task %d %s: the frame of page %d now holds page %d", t, where, id, pg.GetPageID()))
						return false
					}
					pg.RLatch()
					same := bytes.Equal(pg.Data()[:], latest[id])
					var got string
					if !same {
						got = strings.TrimRight(string(pg.Data()[64:96]), "\x00")
					}
					pg.RUnlatch()
					if !same {
						addV("stale-or-foreign-bytes", fmt.Sprintf("task %d %s: page %d holds %q, the owner last stored %q", t, where, id, got, strings.TrimRight(string(latest[id][64:96]), "\x00")))
						return false
					}
					return true
				}
				for _, op := range progs[t] {
					if len(violations) > 0 {
						return
					}
					progressTick()
					if idxTrace {
						fmt.Fprintf(os.Stderr, "step %d task %d kind %d mine=%v held=%d\n", simrt.S.Steps(), t, op.kind, mine, len(held))
					}
					if idxTrace {
						defer func(k int) { fmt.Fprintf(os.Stderr, "   done kind %d task %d mine=%v\n", k, t, mine) }(op.kind)
					}
					switch {
					case op.kind <= 4 || len(mine) == 0: // new page
						if len(held) >= maxPins {
							continue
						}
						pg := bpm.NewPage()
						if pg == nil {
							addV("frame-lost", fmt.Sprintf("task %d: NewPage returned nil although at most %d of %d frames can be pinned", t, nT*(maxPins+1)+nFlush, frames))
							return
						}
						id := int32(pg.GetPageID())
						if o, isLive := owner[id]; isLive {
							addV("live-id-reallocated", fmt.Sprintf("task %d: NewPage returned id %d which is still in use by task %d", t, id, o))
							return
						}
						ver++
						b := make([]byte, pageSize)
						stamp(b, id, op.fill, ver)
						pg.WLatch()
						copy(pg.Data()[:], b)
						pg.WUnlatch()
						owner[id] = t
						latest[id] = b
						allIDs = append(allIDs, id)
						mine = append(mine, id)
						if op.kind%2 == 0 {
							held[id] = pg
							heldDirty[id] = true
						} else {
							bpm.UnpinPage(types.PageID(id), true)
						}
					case op.kind <= 11: // fetch own page, verify, maybe modify, keep or unpin
						id := mine[op.a%len(mine)]
						pg := held[id]
						if pg == nil {
							if len(held) >= maxPins {
								continue
							}
							pg = bpm.FetchPage(types.PageID(id))
							if pg == nil {
								addV("live-page-not-fetchable", fmt.Sprintf("task %d: FetchPage(%d) returned nil for a live page (%d frames, at most %d pinned)", t, id, frames, nT*(maxPins+1)+nFlush))
								return
							}
						}
						if !verify(id, pg, "fetch") {
							return
						}
						dirty := false
						if op.kind >= 8 {
							ver++
							b := make([]byte, pageSize)
							stamp(b, id, op.fill, ver)
							pg.WLatch()
							copy(pg.Data()[:], b)
							pg.WUnlatch()
							latest[id] = b
							dirty = true
						}
						if held[id] != nil {
							heldDirty[id] = heldDirty[id] || dirty
							if op.b%3 == 0 {
								delete(held, id)
								bpm.UnpinPage(types.PageID(id), heldDirty[id])
								delete(heldDirty, id)
							}
						} else if op.b%4 == 0 {
							held[id] = pg
							heldDirty[id] = dirty
						} else {
							bpm.UnpinPage(types.PageID(id), dirty)
						}
					case op.kind <= 14: // re-check a held page (it must not have moved or changed), then release it
						for _, id := range sortedHeld(held) {
							pg := held[id]
							if !verify(id, pg, "held page") {
								return
							}
							if op.b%2 == 0 {
								delete(held, id)
								bpm.UnpinPage(types.PageID(id), heldDirty[id])
								delete(heldDirty, id)
							}
							break
						}
					case op.kind <= 16: // flush own page
						id := mine[op.a%len(mine)]
						bpm.FlushPage(types.PageID(id))
					default: // deallocate an own page that this task does not hold
						i := op.a % len(mine)
						id := mine[i]
						if held[id] != nil {
							continue
						}
						delete(owner, id)
						delete(latest, id)
						mine = append(mine[:i], mine[i+1:]...)
						bpm.DeallocatePage(types.PageID(id), true)
					}
				}
				for _, id := range sortedHeld(held) {
					pg := held[id]
					if !verify(id, pg, "held page at end") {
						return
					}
					bpm.UnpinPage(types.PageID(id), heldDirty[id])
				}
			}))
		}
		for f := 0; f < nFlush; f++ {
			f := f
			tasks = append(tasks, simrt.S.Spawn(fmt.Sprintf("flusher-%d", f), func() {
				for _, op := range flushProg[f] {
					if len(violations) > 0 {
						return
					}
					switch {
					case op.kind <= 6:
						if len(allIDs) > 0 {
							bpm.FlushPage(types.PageID(allIDs[op.a%len(allIDs)]))
						} else {
							simrt.Yield()
						}
					case op.kind <= 8:
						bpm.FlushAllDirtyPages()
					default:
						bpm.FlushAllPages()
					}
				}
			}))
		}
		for _, tk := range tasks {
			simrt.S.Join(tk)
		}
		// final: every live page read back through the pool, and after evicting everything, from the file
		if len(violations) == 0 {
			for round := 0; round < 2 && len(violations) == 0; round++ {
				for _, id := range sortedInt32Keys(latest) {
					pg := bpm.FetchPage(types.PageID(id))
					if pg == nil {
						addV("live-page-not-fetchable", fmt.Sprintf("final round %d: FetchPage(%d) returned nil", round, id))
						break
					}
					if !bytes.Equal(pg.Data()[:], latest[id]) {
						addV("stale-or-foreign-bytes", fmt.Sprintf("final round %d: page %d holds %q, the owner last stored %q", round, id,
							strings.TrimRight(string(pg.Data()[64:96]), "\x00"), strings.TrimRight(string(latest[id][64:96]), "\x00")))
						bpm.UnpinPage(types.PageID(id), false)
						break
					}
					bpm.UnpinPage(types.PageID(id), false)
				}
			}
		}
		func() {
			defer func() { recover() }()
			dm.ShutDown()
		}()
	})
	removeDBFiles(path)
	if rec != nil {
		for _, ev := range rec.Events {
			if ev.Kind == 'P' {
				fmt.Fprintf(os.Stderr, "io %d WritePage(%d) %q\n", ev.Seq, ev.Page, strings.TrimRight(string(ev.Data[64:96]), "\x00"))
			}
		}
	}
	cr.stat("steps", int(cr.Res.Steps))
	cr.stat("decisions", int(cr.Res.Decisions))
	cr.stat("preemptions", int(cr.Res.Preemptions))
	cr.faultStats()
	cr.stat("outcome:"+cr.Res.Outcome, 1)
	cr.stat(fmt.Sprintf("bpm_frames:%d", frames), 1)
	switch cr.Res.Outcome {
	case "deadlock":
		cr.Viol = append(cr.Viol, Violation{Property: "C13", Class: "deadlock", Detail: strings.Join(firstN(cr.Res.Blocked, 10), "; ")})
	case "panic":
		cr.Viol = append(cr.Viol, Violation{Property: "C13", Class: "panic-under-concurrency", Detail: fmt.Sprintf("task %s: %s [%s]", cr.Res.PanicTask, cr.Res.PanicVal, repoFrames(cr.Res.PanicStack, 6)), Site: panicSite(cr.Res.PanicStack)})
	case "ok":
		cr.Viol = append(cr.Viol, violations...)
	default:
		cr.stat("inconclusive_"+cr.Res.Outcome, 1)
	}
}

func sortedInt32Keys(m map[int32][]byte) []int32 {
	var ks []int32
	for k := range m {
		ks = append(ks, k)
	}
	for i := 1; i < len(ks); i++ {
		for j := i; j > 0 && ks[j] < ks[j-1]; j-- {
			ks[j], ks[j-1] = ks[j-1], ks[j]
		}
	}
	return ks
}

// (harness code is not rewritten: map iteration order must not leak into the run)
func sortedHeld(m map[int32]*page.Page) []int32 {
	var ks []int32
	for k := range m {
		ks = append(ks, k)
	}
	for i := 1; i < len(ks); i++ {
		for j := i; j > 0 && ks[j] < ks[j-1]; j-- {
			ks[j], ks[j-1] = ks[j-1], ks[j]
		}
	}
	return ks
}
