package main

// crashcheck.go: enumeration of crash points (and torn / nested variants) over a recorded run and
// the C01 / C02 / C20 oracles.

import (
	"fmt"
	"sort"

	"github.com/ryogrid/SamehadaDB/lib/storage/disk"
)

type crashPoint struct {
	evIdx  int // index of the last trace event included (an I/O event), or -1 for "setup end"
	pos    int // trace position: events [0,pos) performed
	ioOrd  int // ordinal among I/O events
	tear   *Tear
	window bool // inside commit / abort / checkpoint / statement window
}

// committedEver: every canonical row that was part of some committed snapshot, per table.
func committedEver(snaps []Snapshot) map[string]map[string]bool {
	out := map[string]map[string]bool{}
	for _, sn := range snaps {
		for t, rows := range sn {
			if out[t] == nil {
				out[t] = map[string]bool{}
			}
			for _, r := range rows {
				out[t][r] = true
			}
		}
	}
	return out
}

func multisetDiff(want, got []string) (missing, extra []string) {
	cnt := map[string]int{}
	for _, w := range want {
		cnt[w]++
	}
	for _, g := range got {
		cnt[g]--
	}
	for k, c := range cnt {
		for ; c > 0; c-- {
			missing = append(missing, k)
		}
		for ; c < 0; c++ {
			extra = append(extra, k)
		}
	}
	sort.Strings(missing)
	sort.Strings(extra)
	return
}

// classify decides, for a recovered state that matches neither allowed snapshot, which property
// the difference belongs to. expected = the allowed snapshot closest to the recovered state.
func (cr *CrashRun) classify(out *RecoverOutcome, allowed []Snapshot, pos int) []Violation {
	best := -1
	bestN := 1 << 30
	for i, sn := range allowed {
		n := 0
		for _, tn := range cr.Tables {
			if _, inSnap := sn[tn]; inSnap == out.Missing[tn] {
				n += 1000
			}
			ms, ex := multisetDiff(sn[tn], out.Tables[tn])
			n += len(ms) + len(ex)
		}
		if n < bestN {
			bestN, best = n, i
		}
	}
	sn := allowed[best]
	ever := committedEver(cr.Snaps)
	// rows touched by transactions that had not committed at the crash point
	loserTouched := map[string]bool{}
	for _, tr := range cr.Exec.Txns {
		if tr.BeginPos >= pos {
			continue
		}
		committedBefore := tr.Committed && tr.EndPos <= pos
		if !committedBefore {
			for _, r := range tr.Touched {
				loserTouched[r] = true
			}
		}
	}
	var c01, c02, c10 []string
	for _, tn := range cr.Tables {
		_, inSnap := sn[tn]
		if out.Missing[tn] {
			if inSnap {
				c10 = append(c10, fmt.Sprintf("table %s, whose CREATE TABLE had returned before the crash, is not in the catalog after the restart", tn))
			}
			continue
		}
		if !inSnap {
			c10 = append(c10, fmt.Sprintf("table %s is in the catalog after the restart although its CREATE TABLE was never acknowledged", tn))
			continue
		}
		if _, ok := out.Tables[tn]; !ok {
			c01 = append(c01, fmt.Sprintf("table %s unreadable after restart: %s", tn, out.ScanErr[tn]))
			continue
		}
		ms, ex := multisetDiff(sn[tn], out.Tables[tn])
		for _, r := range ms {
			if loserTouched[r] {
				c02 = append(c02, fmt.Sprintf("%s: committed row %s changed/deleted by an unfinished or aborted transaction was not restored", tn, r))
			} else {
				c01 = append(c01, fmt.Sprintf("%s: committed row %s is missing", tn, r))
			}
		}
		for _, r := range ex {
			if ever[tn][r] {
				c01 = append(c01, fmt.Sprintf("%s: stale committed version %s is present (a committed update/delete was lost)", tn, r))
			} else {
				c02 = append(c02, fmt.Sprintf("%s: row %s written by an unfinished or aborted transaction is present", tn, r))
			}
		}
	}
	var vs []Violation
	trim := func(xs []string) string {
		if len(xs) > 4 {
			return fmt.Sprintf("%v ... (+%d more)", xs[:4], len(xs)-4)
		}
		return fmt.Sprint(xs)
	}
	if len(c01) > 0 {
		cls := "committed-data-lost"
		vs = append(vs, Violation{Property: "C01", Class: cls, Detail: trim(c01)})
	}
	if len(c02) > 0 {
		vs = append(vs, Violation{Property: "C02", Class: "uncommitted-effect-survives", Detail: trim(c02)})
	}
	if len(c10) > 0 {
		vs = append(vs, Violation{Property: "C10", Class: "table-existence-after-crash", Detail: trim(c10)})
	}
	return vs
}

// allowedAt: the snapshots a crash at trace position pos may legitimately recover to.
func (cr *CrashRun) allowedAt(pos int) []Snapshot {
	ret, inflight := commitState(cr.Events, pos)
	al := []Snapshot{cr.Snaps[ret]}
	if inflight && ret+1 < len(cr.Snaps) {
		al = append(al, cr.Snaps[ret+1])
	}
	return al
}

// features of a crash point used for known-finding attribution
func (cr *CrashRun) featuresAt(pos int, faults []Fault, im *Image) map[string]bool {
	f := map[string]bool{}
	for _, ft := range faults {
		f["fault:"+ft.Kind] = true
		if ft.GCDone {
			f["nested:gc-done"] = true
		}
		if ft.LoserData {
			f["nested:loser-data"] = true
		}
	}
	recs, rest, _ := parseLog(im.Log)
	if rest > 0 {
		f["log:torn-tail"] = true
	}
	byTxn := map[int32][]LogRec{}
	finished := map[int32]int32{}
	for _, r := range recs {
		byTxn[r.Txn] = append(byTxn[r.Txn], r)
		if r.Type == ltCommit || r.Type == ltAbort {
			finished[r.Txn] = r.Type
		}
		if r.Type == ltNewTablePage {
			f["log:newpage"] = true
			if int(r.Page+1)*pageSize > len(im.DB) {
				f["log:newpage-beyond-eof"] = true
			}
		}
		if r.Type == ltDeallocatePage || r.Type == ltReusePage {
			f["log:dealloc-reuse"] = true
		}
	}
	for txn, rs := range byTxn {
		if txn == 2147483647 {
			continue
		}
		fin := finished[txn]
		for _, r := range rs {
			tn := ltNames[r.Type]
			switch fin {
			case ltAbort:
				f["log:aborted-txn"] = true
				f["aborted:"+tn] = true
			case ltCommit:
			default:
				f["log:loser"] = true
				f["loser:"+tn] = true
			}
		}
	}
	return f
}

type crashCheckOpts struct {
	props       map[string]bool // which properties' violations to keep (others are only counted)
	rnd         *rng
	maxImages   int
	nested      int
	idempotence bool
	stopAtFirst bool
	wantKey     string // stop as soon as a violation with this key was found
}

// checkImage recovers one image and applies the oracle. Returns violations (all properties).
func (cr *CrashRun) checkImage(im Image, pos int, faults []Fault, postWork bool) (vs []Violation, out RecoverOutcome, s *SUT) {
	s, out = recoverImage(cr.Dir, im, cr.Cfg.Frames, cr.Tables, false)
	cr.stat("images", 1)
	feat := func() map[string]bool { return cr.featuresAt(pos, faults, &im) }
	if out.Panic != nil && s == nil {
		vs = append(vs, Violation{Property: "C01", Class: "restart-panic", Detail: out.Panic.Val, Site: out.Panic.Site, Faults: faults, Features: feat()})
		return
	}
	allowed := cr.allowedAt(pos)
	okAny := false
	for _, sn := range allowed {
		if ok, _ := matchSnapshot(&out, sn, cr.Tables); ok {
			okAny = true
			break
		}
	}
	if okAny && s != nil {
		// catalog identity of the tables that exist (C10)
		for _, cv := range catalogViolations(s, cr.presentSpecs(&out), "after crash restart") {
			vs = append(vs, Violation{Property: "C10", Class: cv[0] + "-after-crash", Detail: cv[1], Faults: faults, Features: feat()})
		}
	}
	if !okAny {
		for _, v := range cr.classify(&out, allowed, pos) {
			v.Faults = faults
			v.Features = feat()
			if out.Panic != nil {
				v.Site = out.Panic.Site
			}
			vs = append(vs, v)
		}
		return
	}
	if postWork && s != nil {
		if d := cr.postRecoveryWork(s, &out); d != "" {
			vs = append(vs, Violation{Property: "C01", Class: "post-recovery-work", Detail: d, Faults: faults, Features: feat()})
		}
	}
	return
}

// presentSpecs: specs of the tables that are in the recovered catalog, in a fixed order.
func (cr *CrashRun) presentSpecs(out *RecoverOutcome) []*TableSpec {
	var ps []*TableSpec
	for _, tn := range cr.Tables {
		if ts := cr.Specs[tn]; ts != nil && !out.Missing[tn] {
			ps = append(ps, ts)
		}
	}
	return ps
}

// postRecoveryWork: the recovered database must accept new statements. Builds a model from the
// recovered rows and runs a fixed small workload against it.
func (cr *CrashRun) postRecoveryWork(s *SUT, out *RecoverOutcome) string {
	m := &Model{}
	present := cr.presentSpecs(out)
	for _, ts := range present {
		t := m.AddTable(ts.Name, ts.Cols)
		rows, _, res := s.ScanHeap(ts.Name)
		if !res.OK() {
			return "scan before post-recovery work failed"
		}
		for _, r := range rows {
			m.nextID++
			t.Rows = append(t.Rows, &MRow{ID: m.nextID, Vals: r})
		}
	}
	e := NewExec(s, m)
	e.CheckSelects = true
	n := 0
	for i, ts := range present {
		t := m.Table(ts.Name)
		k := int32(1000000 + i)
		row := []any{k, int32(7)}
		if len(ts.Cols) > 2 {
			row = append(row, "postrecovery")
		}
		ops := []Op{{Kind: "auto", Stmt: &Stmt{Kind: "insert", Table: ts.Name, Cols: colNames(ts), Rows: [][]any{row}}}}
		if len(t.Rows) > 0 {
			k0 := t.Rows[0].Vals[0].(int32)
			// OR form: does not depend on the index path
			ops = append(ops, Op{Kind: "auto", Stmt: &Stmt{Kind: "update", Table: ts.Name, Set: []SetItem{{"v", int32(424242)}},
				Where: &Pred{Logic: "OR", L: &Pred{Col: "k", Op: "=", Val: k0}, R: &Pred{Col: "k", Op: "=", Val: k0}}}})
		}
		if len(t.Rows) > 1 {
			k1 := t.Rows[len(t.Rows)-1].Vals[0].(int32)
			ops = append(ops, Op{Kind: "auto", Stmt: &Stmt{Kind: "delete", Table: ts.Name,
				Where: &Pred{Logic: "OR", L: &Pred{Col: "k", Op: "=", Val: k1}, R: &Pred{Col: "k", Op: "=", Val: k1}}}})
		}
		ops = append(ops, Op{Kind: "auto", Stmt: &Stmt{Kind: "select", Table: ts.Name, Cols: colNames(ts),
			Where: &Pred{Logic: "OR", L: &Pred{Col: "k", Op: ">=", Val: int32(0)}, R: &Pred{Col: "k", Op: "<", Val: int32(0)}}}})
		for _, op := range ops {
			n++
			if !e.Run(n, op) {
				return "post-recovery statement panicked: " + e.Panic.String() + " (" + op.Stmt.SQL() + ")"
			}
			if oc := e.Outcomes[len(e.Outcomes)-1]; oc.Status != "ok" {
				return fmt.Sprintf("post-recovery statement refused: %s: %s %s", op.Stmt.SQL(), oc.Status, oc.Detail)
			}
		}
	}
	if len(e.Div) > 0 {
		return "post-recovery answer wrong: " + e.Div[0].Detail
	}
	if d := e.VerifyCommitted("after post-recovery work"); len(d) > 0 {
		return d[0].Detail
	}
	return ""
}

func tornVariants(ev *disk.SimEvent, r *rng, pages bool) []Tear {
	var out []Tear
	switch ev.Kind {
	case 'L':
		recs, _, _ := parseLog(ev.Data)
		cand := map[int]string{}
		for _, rc := range recs {
			b := rc.Off + rc.Size
			if b < len(ev.Data) {
				cand[b] = "record boundary"
			}
			if b-1 > 0 && b-1 < len(ev.Data) {
				cand[b-1] = "one byte before a record boundary"
			}
			if b+1 < len(ev.Data) {
				cand[b+1] = "one byte after a record boundary"
			}
			if rc.Size > 24 {
				cand[rc.Off+20+r.Intn(rc.Size-20)] = "inside a record body"
			}
			cand[rc.Off+4+r.Intn(12)] = "inside a record header"
		}
		var ks []int
		for k := range cand {
			if k > 0 && k < len(ev.Data) {
				ks = append(ks, k)
			}
		}
		sort.Ints(ks)
		for len(ks) > 4 {
			i := r.Intn(len(ks))
			ks = append(ks[:i], ks[i+1:]...)
		}
		for _, k := range ks {
			out = append(out, Tear{Kind: "log", Keep: k, Note: cand[k]})
		}
	case 'P':
		if pages {
			for _, j := range []int{1, 1 + r.Intn(7), 7} {
				out = append(out, Tear{Kind: "page", Keep: j})
			}
		}
	}
	return out
}

// explore enumerates crash points after the set-up phase and checks each image.
func (cr *CrashRun) explore(o crashCheckOpts) {
	evs := cr.Events
	// choose I/O events to crash after
	var cand []int
	for i := cr.SetupEnd; i < len(evs); i++ {
		if evs[i].Kind != 'M' {
			cand = append(cand, i)
		}
	}
	cr.stat("io_events_after_setup", len(cand))
	chosen := map[int]bool{}
	if len(cand) <= o.maxImages {
		for _, i := range cand {
			chosen[i] = true
		}
		cr.stat("runs_all_crash_points", 1)
	} else {
		// windows first, then a seeded sample
		for _, i := range cand {
			if ph := phaseAt(evs, i); ph == "commit" || ph == "abort" || ph == "checkpoint" {
				chosen[i] = true
			}
		}
		for len(chosen) < o.maxImages {
			chosen[cand[o.rnd.Intn(len(cand))]] = true
		}
	}
	im := Image{}
	ioOrd := 0
	check := func(image Image, pos int, faults []Fault, post bool) bool {
		vs, _, s := cr.checkImage(image, pos, faults, post)
		if s != nil {
			s.Crash()
		}
		for _, v := range vs {
			cr.stat("viol:"+v.Property+":"+v.Class, 1)
			cr.Viol = append(cr.Viol, v)
		}
		return len(vs) == 0
	}
	found := func() bool {
		if o.wantKey == "" {
			return false
		}
		for i := range cr.Viol {
			if cr.Viol[i].Key() == o.wantKey {
				return true
			}
		}
		return false
	}
	for i := 0; i < len(evs); i++ {
		ev := &evs[i]
		if ev.Kind == 'M' {
			continue
		}
		if found() {
			return
		}
		if overBudget() && i >= cr.SetupEnd {
			cr.stat("exploration_truncated_by_budget", 1)
			return
		}
		if i >= cr.SetupEnd && chosen[i] {
			phase := phaseAt(evs, i)
			// torn variants of this event: image before it + partial write
			if cr.Cfg.Torn {
				for _, t := range tornVariants(ev, o.rnd, cr.Cfg.TornPages) {
					t := t
					tim := im.clone()
					applyTorn(&tim, ev, t)
					kind := "torn_log"
					if t.Kind == "page" {
						kind = "torn_page"
					}
					cr.stat("fault:"+kind, 1)
					check(tim, i, []Fault{{Kind: kind, After: ioOrd, Tear: &t, Phase: phase}}, false)
					if o.stopAtFirst && len(cr.Viol) > 0 {
						return
					}
				}
			}
		}
		applyEvent(&im, ev)
		ioOrd++
		if i >= cr.SetupEnd && chosen[i] {
			phase := phaseAt(evs, i+1)
			cr.stat("fault:crash", 1)
			cr.stat("crash_phase:"+phase, 1)
			post := cr.Cfg.PostWork && o.rnd.Chance(0.15)
			ok := check(im.clone(), i+1, []Fault{{Kind: "crash", After: ioOrd, Phase: phase}}, post)
			if o.stopAtFirst && len(cr.Viol) > 0 {
				return
			}
			if ok && o.nested > 0 && o.rnd.Chance(0.2) {
				cr.exploreNested(im.clone(), i+1, []Fault{{Kind: "crash", After: ioOrd, Phase: phase}}, o, 1)
			}
		}
	}
	// final state with everything written, plus post-recovery work and idempotence
	if len(cand) > 0 || cr.SetupEnd == len(evs) {
		pos := len(evs)
		faults := []Fault{{Kind: "crash", After: ioOrd, Phase: "end"}}
		vs, _, s := cr.checkImage(im.clone(), pos, faults, true)
		if s != nil {
			s.Crash()
		}
		for _, v := range vs {
			cr.stat("viol:"+v.Property+":"+v.Class, 1)
			cr.Viol = append(cr.Viol, v)
		}
		if len(vs) == 0 && o.idempotence {
			cr.checkIdempotence(im.clone(), pos, faults)
		}
	}
}

// exploreNested: record the recovery run that starts from image `im`, cut it at every prefix of
// its own writes, and require the final restart to produce an allowed state (C20).
func (cr *CrashRun) exploreNested(im Image, pos int, faults []Fault, o crashCheckOpts, depth int) {
	s, out := recoverImage(cr.Dir, im, cr.Cfg.Frames, cr.Tables, true)
	if s != nil {
		s.Crash()
	}
	if out.Panic != nil {
		return // already reported by the plain check
	}
	revs := out.Events
	var io []int
	for i := range revs {
		if revs[i].Kind != 'M' {
			io = append(io, i)
		}
	}
	cr.stat("nested_recovery_runs", 1)
	cr.stat("nested_recovery_io_events", len(io))
	cur := im.clone()
	n := 0
	gcDone := false
	// does the first crash image contain a loser with data records (something undo has to do)?
	loserData := false
	{
		recs, _, _ := parseLog(im.Log)
		fin := map[int32]bool{}
		for _, r := range recs {
			if r.Type == ltCommit || r.Type == ltAbort {
				fin[r.Txn] = true
			}
		}
		for _, r := range recs {
			if !fin[r.Txn] && r.Type >= ltInsert && r.Type <= ltUpdate {
				loserData = true
			}
		}
	}
	for _, i := range io {
		ev := &revs[i]
		if overBudget() {
			cr.stat("nested_exploration_truncated_by_budget", 1)
			return
		}
		// torn variant of the recovery's own write
		if cr.Cfg.Torn && o.rnd.Chance(0.3) {
			for _, t := range tornVariants(ev, o.rnd, false) {
				t := t
				tim := cur.clone()
				applyTorn(&tim, ev, t)
				fs := append(append([]Fault{}, faults...), Fault{Kind: "nested_torn_log", After: n, Tear: &t, Depth: depth, GCDone: gcDone, LoserData: loserData})
				cr.nestedCheck(tim, pos, fs, depth)
			}
		}
		applyEvent(&cur, ev)
		n++
		if ev.Kind == 'G' {
			gcDone = true
		}
		fs := append(append([]Fault{}, faults...), Fault{Kind: "nested_crash", After: n, Depth: depth, GCDone: gcDone, LoserData: loserData})
		ok := cr.nestedCheck(cur.clone(), pos, fs, depth)
		if ok && depth < o.nested && o.rnd.Chance(0.15) {
			cr.exploreNested(cur.clone(), pos, fs, o, depth+1)
		}
	}
}

func (cr *CrashRun) nestedCheck(im Image, pos int, faults []Fault, depth int) bool {
	cr.stat(fmt.Sprintf("fault:nested_crash_depth%d", depth), 1)
	vs, _, s := cr.checkImage(im, pos, faults, false)
	if s != nil {
		s.Crash()
	}
	for _, v := range vs {
		v.Property = "C20"
		v.Class = "nested:" + v.Class
		cr.stat("viol:"+v.Property+":"+v.Class, 1)
		cr.Viol = append(cr.Viol, v)
	}
	return len(vs) == 0
}

// checkIdempotence: recover, stop without shutdown, recover again (x3): identical tables.
func (cr *CrashRun) checkIdempotence(im Image, pos int, faults []Fault) {
	path := cr.Dir + "/r"
	var first map[string][]string
	var firstMissing map[string]bool
	cur := im
	for round := 0; round < 3; round++ {
		s, out := recoverImage(cr.Dir, cur, cr.Cfg.Frames, cr.Tables, false)
		if s != nil {
			s.Crash()
		}
		cr.stat("idempotence_rounds", 1)
		if out.Panic != nil {
			cr.Viol = append(cr.Viol, Violation{Property: "C20", Class: "repeat-recovery-panic", Detail: fmt.Sprintf("round %d: %s", round, out.Panic.Val), Site: out.Panic.Site, Faults: faults, Features: cr.featuresAt(pos, faults, &im)})
			return
		}
		if first == nil {
			first = out.Tables
			firstMissing = out.Missing
		} else {
			for _, tn := range cr.Tables {
				if firstMissing[tn] != out.Missing[tn] {
					cr.Viol = append(cr.Viol, Violation{Property: "C20", Class: "repeat-recovery-differs", Detail: fmt.Sprintf("round %d table %s: in catalog = %v, first round = %v", round, tn, !out.Missing[tn], !firstMissing[tn]), Faults: faults, Features: cr.featuresAt(pos, faults, &im)})
					return
				}
				if !sameStrings(first[tn], out.Tables[tn]) {
					cr.Viol = append(cr.Viol, Violation{Property: "C20", Class: "repeat-recovery-differs", Detail: fmt.Sprintf("round %d table %s: %s", round, tn, diffStrings(first[tn], out.Tables[tn])), Faults: faults, Features: cr.featuresAt(pos, faults, &im)})
					return
				}
			}
		}
		cur = readImage(path)
	}
}
