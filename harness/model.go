package main

// model.go: the reference model R (DESIGN.md section 3). Tables are multisets of typed rows;
// transactions are row-level overlays on the committed state. Comparison semantics are written
// from the SQL meaning, not copied from types.Value.

import (
	"fmt"
	"math"
	"sort"
	"strconv"
	"strings"
)

type ColType int

const (
	TInt ColType = iota
	TFloat
	TVarchar
	TBool
)

func (t ColType) SQL() string {
	switch t {
	case TInt:
		return "INT"
	case TFloat:
		return "FLOAT"
	case TVarchar:
		return "VARCHAR(256)"
	case TBool:
		return "BOOLEAN"
	}
	return "?"
}

type Col struct {
	Name string  `json:"name"`
	Type ColType `json:"type"`
}

type MRow struct {
	ID   int64
	Vals []any
}

type MTable struct {
	Name string
	Cols []Col
	Rows []*MRow
}

func (t *MTable) ColIdx(name string) int {
	for i, c := range t.Cols {
		if c.Name == name {
			return i
		}
	}
	return -1
}

type Model struct {
	Tables []*MTable
	nextID int64
}

func (m *Model) Table(name string) *MTable {
	for _, t := range m.Tables {
		if t.Name == name {
			return t
		}
	}
	return nil
}

func (m *Model) AddTable(name string, cols []Col) *MTable {
	t := &MTable{Name: name, Cols: append([]Col{}, cols...)}
	m.Tables = append(m.Tables, t)
	return t
}

// Snapshot is an immutable copy of the committed contents: table -> sorted canonical rows.
type Snapshot map[string][]string

func (m *Model) Snapshot() Snapshot {
	s := Snapshot{}
	for _, t := range m.Tables {
		rows := make([]string, 0, len(t.Rows))
		for _, r := range t.Rows {
			rows = append(rows, canonRow(r.Vals))
		}
		sort.Strings(rows)
		s[t.Name] = rows
	}
	return s
}

func canonVal(v any) string {
	switch x := v.(type) {
	case nil:
		return "NULL"
	case int32:
		return "i" + strconv.FormatInt(int64(x), 10)
	case int:
		return "i" + strconv.Itoa(x)
	case float32:
		if x == 0 { // +0 and -0 are the same SQL value
			return "f0"
		}
		return "f" + strconv.FormatUint(uint64(math.Float32bits(x)), 16)
	case string:
		return "s" + strconv.Quote(x)
	case bool:
		if x {
			return "bT"
		}
		return "bF"
	}
	return fmt.Sprintf("?%T:%v", v, v)
}

func canonRow(vals []any) string {
	parts := make([]string, len(vals))
	for i, v := range vals {
		parts[i] = canonVal(v)
	}
	return strings.Join(parts, "|")
}

func canonRows(rows [][]any) []string {
	out := make([]string, len(rows))
	for i, r := range rows {
		out[i] = canonRow(r)
	}
	sort.Strings(out)
	return out
}

func sameStrings(a, b []string) bool {
	if len(a) != len(b) {
		return false
	}
	for i := range a {
		if a[i] != b[i] {
			return false
		}
	}
	return true
}

// diffStrings summarises the multiset difference (missing from got / unexpected in got).
func diffStrings(want, got []string) string {
	cnt := map[string]int{}
	for _, w := range want {
		cnt[w]++
	}
	for _, g := range got {
		cnt[g]--
	}
	var miss, extra []string
	for k, c := range cnt {
		for ; c > 0; c-- {
			miss = append(miss, k)
		}
		for ; c < 0; c++ {
			extra = append(extra, k)
		}
	}
	sort.Strings(miss)
	sort.Strings(extra)
	trim := func(s []string) []string {
		if len(s) > 6 {
			return append(s[:6], fmt.Sprintf("...(+%d)", len(s)-6))
		}
		return s
	}
	return fmt.Sprintf("missing=%v unexpected=%v", trim(miss), trim(extra))
}

// ---------------------------------------------------------------- predicates

type Pred struct {
	// leaf: Col Op Val ; node: Logic ("AND"/"OR") with L,R
	Col   string `json:"col,omitempty"`
	Op    string `json:"op,omitempty"`
	Val   any    `json:"val,omitempty"`
	Logic string `json:"logic,omitempty"`
	L     *Pred  `json:"l,omitempty"`
	R     *Pred  `json:"r,omitempty"`
}

func (p *Pred) HasOr() bool {
	if p == nil {
		return false
	}
	if p.Logic == "OR" {
		return true
	}
	if p.Logic != "" {
		return p.L.HasOr() || p.R.HasOr()
	}
	return false
}

func sqlLit(v any) string {
	switch x := v.(type) {
	case nil:
		return "NULL"
	case int32:
		return strconv.FormatInt(int64(x), 10)
	case int:
		return strconv.Itoa(x)
	case float32:
		s := strconv.FormatFloat(float64(x), 'f', -1, 32)
		if !strings.Contains(s, ".") {
			s += ".0"
		}
		return s
	case string:
		return "'" + x + "'"
	case bool:
		if x {
			return "true"
		}
		return "false"
	}
	return fmt.Sprint(v)
}

func (p *Pred) SQL() string {
	// the SQL front end accepts no parentheses: trees are built so that none are needed
	// (OR never below AND; AND binds tighter than OR)
	if p.Logic != "" {
		if p.Logic == "AND" && (p.L.Logic == "OR" || p.R.Logic == "OR") {
			panic("model: predicate shape needs parentheses")
		}
		return p.L.SQL() + " " + p.Logic + " " + p.R.SQL()
	}
	return p.Col + " " + p.Op + " " + sqlLit(p.Val)
}

// cmpVals returns (-1,0,1, comparable)
func cmpVals(a, b any) (int, bool) {
	if a == nil || b == nil {
		return 0, false
	}
	switch x := a.(type) {
	case int32:
		y, ok := b.(int32)
		if !ok {
			return 0, false
		}
		switch {
		case x < y:
			return -1, true
		case x > y:
			return 1, true
		}
		return 0, true
	case float32:
		y, ok := b.(float32)
		if !ok {
			return 0, false
		}
		switch {
		case x < y:
			return -1, true
		case x > y:
			return 1, true
		case x == y:
			return 0, true
		}
		return 0, false // NaN
	case string:
		y, ok := b.(string)
		if !ok {
			return 0, false
		}
		return strings.Compare(x, y), true
	case bool:
		y, ok := b.(bool)
		if !ok {
			return 0, false
		}
		if x == y {
			return 0, true
		}
		if !x {
			return -1, true
		}
		return 1, true
	}
	return 0, false
}

func (p *Pred) Eval(t *MTable, vals []any) bool {
	if p == nil {
		return true
	}
	if p.Logic == "AND" {
		return p.L.Eval(t, vals) && p.R.Eval(t, vals)
	}
	if p.Logic == "OR" {
		return p.L.Eval(t, vals) || p.R.Eval(t, vals)
	}
	ci := t.ColIdx(p.Col)
	if ci < 0 {
		return false
	}
	c, ok := cmpVals(vals[ci], p.Val)
	if !ok {
		return false // NULL / NaN: unknown -> not selected
	}
	switch p.Op {
	case "=":
		return c == 0
	case "<>", "!=":
		return c != 0
	case "<":
		return c < 0
	case "<=":
		return c <= 0
	case ">":
		return c > 0
	case ">=":
		return c >= 0
	}
	return false
}

// ---------------------------------------------------------------- statements

type SetItem struct {
	Col string `json:"col"`
	Val any    `json:"val"`
}

// JoinSpec: SELECT ... FROM Tables[0] JOIN Tables[1] ON On[0] [JOIN Tables[2] ON On[1]] WHERE conj
type JoinOn struct {
	L string `json:"l"` // qualified column "t0.a"
	R string `json:"r"`
}

type JoinSpec struct {
	Tables []string `json:"tables"`
	On     []JoinOn `json:"on"`
}

type Stmt struct {
	Kind  string    `json:"kind"` // insert | update | delete | select
	Table string    `json:"table"`
	Join  *JoinSpec `json:"join,omitempty"` // select over several tables: Cols and Where use qualified names
	Plan  bool      `json:"plan,omitempty"` // insert through the plan-level API (values the SQL literal forms cannot express)
	Cols  []string  `json:"cols,omitempty"` // insert target columns / select list
	Rows  [][]any   `json:"rows,omitempty"`
	Set   []SetItem `json:"set,omitempty"`
	Where *Pred     `json:"where,omitempty"`
}

func (s *Stmt) SQL() string {
	switch s.Kind {
	case "insert":
		var rows []string
		for _, r := range s.Rows {
			var vs []string
			for _, v := range r {
				vs = append(vs, sqlLit(v))
			}
			rows = append(rows, "("+strings.Join(vs, ", ")+")")
		}
		return "INSERT INTO " + s.Table + "(" + strings.Join(s.Cols, ", ") + ") VALUES " + strings.Join(rows, ", ") + ";"
	case "update":
		var sets []string
		for _, si := range s.Set {
			sets = append(sets, si.Col+" = "+sqlLit(si.Val))
		}
		q := "UPDATE " + s.Table + " SET " + strings.Join(sets, ", ")
		if s.Where != nil {
			q += " WHERE " + s.Where.SQL()
		}
		return q + ";"
	case "delete":
		q := "DELETE FROM " + s.Table
		if s.Where != nil {
			q += " WHERE " + s.Where.SQL()
		}
		return q + ";"
	case "select":
		if s.Join != nil {
			q := "SELECT " + strings.Join(s.Cols, ", ") + " FROM " + s.Join.Tables[0]
			for i, on := range s.Join.On {
				q += " JOIN " + s.Join.Tables[i+1] + " ON " + on.L + " = " + on.R
			}
			if s.Where != nil {
				q += " WHERE " + s.Where.SQL()
			}
			return q + ";"
		}
		q := "SELECT " + strings.Join(s.Cols, ", ") + " FROM " + s.Table
		if s.Where != nil {
			q += " WHERE " + s.Where.SQL()
		}
		return q + ";"
	}
	return "?"
}

// ---------------------------------------------------------------- transactions

type rowChange struct {
	deleted bool
	vals    []any
}

type MTxn struct {
	m        *Model
	changed  map[int64]*rowChange // committed row id -> change
	inserted map[string][]*MRow   // table -> rows inserted by this txn (IDs assigned at insert)
	Writes   int
	Stmts    int // statements applied
	// canonical committed images of the committed rows this transaction changed or deleted
	TouchedBefore []string
}

func (m *Model) Begin() *MTxn {
	return &MTxn{m: m, changed: map[int64]*rowChange{}, inserted: map[string][]*MRow{}}
}

// view returns the rows of table as this transaction sees them: committed (+ own changes) + own inserts.
type viewRow struct {
	src  *MRow // committed row or own inserted row
	own  bool  // own inserted
	vals []any
}

func (x *MTxn) view(t *MTable) []viewRow {
	var out []viewRow
	for _, r := range t.Rows {
		if ch, ok := x.changed[r.ID]; ok {
			if ch.deleted {
				continue
			}
			out = append(out, viewRow{r, false, ch.vals})
			continue
		}
		out = append(out, viewRow{r, false, r.Vals})
	}
	for _, r := range x.inserted[t.Name] {
		out = append(out, viewRow{r, true, r.Vals})
	}
	return out
}

// Apply evaluates the statement against the transaction's view, records its writes in the
// overlay, and returns the rows a SELECT returns (in the written column order).
func (x *MTxn) Apply(s *Stmt) (rows [][]any, err error) {
	x.Stmts++
	if s.Kind == "select" && s.Join != nil {
		return x.applyJoin(s)
	}
	t := x.m.Table(s.Table)
	if t == nil {
		return nil, fmt.Errorf("model: no table %s", s.Table)
	}
	switch s.Kind {
	case "insert":
		for _, r := range s.Rows {
			vals := make([]any, len(t.Cols))
			for i, cn := range s.Cols {
				ci := t.ColIdx(cn)
				if ci < 0 {
					return nil, fmt.Errorf("model: no column %s", cn)
				}
				vals[ci] = r[i]
			}
			x.m.nextID++
			x.inserted[t.Name] = append(x.inserted[t.Name], &MRow{ID: x.m.nextID, Vals: vals})
			x.Writes++
		}
	case "update":
		for _, vr := range x.view(t) {
			if !s.Where.Eval(t, vr.vals) {
				continue
			}
			nv := append([]any{}, vr.vals...)
			for _, si := range s.Set {
				nv[t.ColIdx(si.Col)] = si.Val
			}
			if vr.own {
				vr.src.Vals = nv
			} else {
				if _, seen := x.changed[vr.src.ID]; !seen {
					x.TouchedBefore = append(x.TouchedBefore, canonRow(vr.src.Vals))
				}
				x.changed[vr.src.ID] = &rowChange{vals: nv}
			}
			x.Writes++
		}
	case "delete":
		for _, vr := range x.view(t) {
			if !s.Where.Eval(t, vr.vals) {
				continue
			}
			if vr.own {
				lst := x.inserted[t.Name]
				for i, r := range lst {
					if r == vr.src {
						x.inserted[t.Name] = append(append([]*MRow{}, lst[:i]...), lst[i+1:]...)
						break
					}
				}
			} else {
				if _, seen := x.changed[vr.src.ID]; !seen {
					x.TouchedBefore = append(x.TouchedBefore, canonRow(vr.src.Vals))
				}
				x.changed[vr.src.ID] = &rowChange{deleted: true}
			}
			x.Writes++
		}
	case "select":
		var idx []int
		if len(s.Cols) == 1 && s.Cols[0] == "*" {
			for i := range t.Cols {
				idx = append(idx, i)
			}
		} else {
			for _, cn := range s.Cols {
				ci := t.ColIdx(cn)
				if ci < 0 {
					return nil, fmt.Errorf("model: no column %s", cn)
				}
				idx = append(idx, ci)
			}
		}
		for _, vr := range x.view(t) {
			if !s.Where.Eval(t, vr.vals) {
				continue
			}
			out := make([]any, len(idx))
			for i, ci := range idx {
				out[i] = vr.vals[ci]
			}
			rows = append(rows, out)
		}
	default:
		return nil, fmt.Errorf("model: unknown kind %s", s.Kind)
	}
	return rows, nil
}

// Commit installs the overlay atomically.
func (x *MTxn) Commit() {
	for _, t := range x.m.Tables {
		var keep []*MRow
		for _, r := range t.Rows {
			if ch, ok := x.changed[r.ID]; ok {
				if ch.deleted {
					continue
				}
				r = &MRow{ID: r.ID, Vals: ch.vals}
			}
			keep = append(keep, r)
		}
		keep = append(keep, x.inserted[t.Name]...)
		t.Rows = keep
	}
	x.changed = map[int64]*rowChange{}
	x.inserted = map[string][]*MRow{}
}

func (x *MTxn) Abort() {
	x.changed = map[int64]*rowChange{}
	x.inserted = map[string][]*MRow{}
}

// Touches reports whether the overlay of x and y touch a common committed row (model-level conflict).
func (x *MTxn) Touches(y *MTxn) bool {
	for id := range x.changed {
		if _, ok := y.changed[id]; ok {
			return true
		}
	}
	return false
}

// applyJoin: naive nested-loop evaluation of an equality join with a conjunctive filter.
func (x *MTxn) applyJoin(s *Stmt) ([][]any, error) {
	var tabs []*MTable
	for _, tn := range s.Join.Tables {
		t := x.m.Table(tn)
		if t == nil {
			return nil, fmt.Errorf("model: no table %s", tn)
		}
		tabs = append(tabs, t)
	}
	// qualified column -> (table index, column index)
	lookup := func(q string) (int, int, error) {
		parts := strings.SplitN(q, ".", 2)
		if len(parts) != 2 {
			return 0, 0, fmt.Errorf("model: unqualified column %s in join", q)
		}
		for ti, t := range tabs {
			if t.Name == parts[0] {
				ci := t.ColIdx(parts[1])
				if ci < 0 {
					return 0, 0, fmt.Errorf("model: no column %s", q)
				}
				return ti, ci, nil
			}
		}
		return 0, 0, fmt.Errorf("model: table of %s not joined", q)
	}
	views := make([][]viewRow, len(tabs))
	for i, t := range tabs {
		views[i] = x.view(t)
	}
	var conj []*Pred
	var flatten func(p *Pred) error
	flatten = func(p *Pred) error {
		if p == nil {
			return nil
		}
		if p.Logic == "AND" {
			if err := flatten(p.L); err != nil {
				return err
			}
			return flatten(p.R)
		}
		if p.Logic != "" {
			return fmt.Errorf("model: only conjunctive filters on joins")
		}
		conj = append(conj, p)
		return nil
	}
	if err := flatten(s.Where); err != nil {
		return nil, err
	}
	var out [][]any
	cur := make([][]any, len(tabs))
	var rec func(i int) error
	rec = func(i int) error {
		if i == len(tabs) {
			for _, on := range s.Join.On {
				lt, lc, err := lookup(on.L)
				if err != nil {
					return err
				}
				rt, rc, err := lookup(on.R)
				if err != nil {
					return err
				}
				c, ok := cmpVals(cur[lt][lc], cur[rt][rc])
				if !ok || c != 0 {
					return nil
				}
			}
			for _, p := range conj {
				ti, ci, err := lookup(p.Col)
				if err != nil {
					return err
				}
				c, ok := cmpVals(cur[ti][ci], p.Val)
				if !ok {
					return nil
				}
				pass := false
				switch p.Op {
				case "=":
					pass = c == 0
				case "<>", "!=":
					pass = c != 0
				case "<":
					pass = c < 0
				case "<=":
					pass = c <= 0
				case ">":
					pass = c > 0
				case ">=":
					pass = c >= 0
				}
				if !pass {
					return nil
				}
			}
			var row []any
			if len(s.Cols) == 1 && s.Cols[0] == "*" {
				for ti := range tabs {
					row = append(row, cur[ti]...)
				}
			} else {
				for _, qc := range s.Cols {
					ti, ci, err := lookup(qc)
					if err != nil {
						return err
					}
					row = append(row, cur[ti][ci])
				}
			}
			out = append(out, row)
			return nil
		}
		for _, vr := range views[i] {
			cur[i] = vr.vals
			if err := rec(i + 1); err != nil {
				return err
			}
		}
		return nil
	}
	if err := rec(0); err != nil {
		return nil, err
	}
	return out, nil
}
