package main

// verif harness: one binary, several drivers. It is always built by /verif/tools/simbuild.sh
// against an instrumented scratch copy of /repo/lib. The orchestrator (/verif/check) fans out
// worker processes:  harness <driver> -prop C01 -seed N -start I -runs K -tier quick -scratch DIR
// Every worker prints one JSON object per run on stdout (prefix "RUN ") and one summary line
// (prefix "END "). Exit status: 0 normal (violations are reported in the JSON), 2 internal error.

import (
	"crypto/sha256"
	"encoding/hex"
	"encoding/json"
	"flag"
	"fmt"
	"os"
	"runtime"
	"runtime/debug"
	"sort"
	"strings"
	"sync/atomic"
	"time"

	"github.com/ryogrid/SamehadaDB/lib/storage/disk"
	"verif/simrt"
	"verif/simrt/simsync"
)

type RunReport struct {
	Driver     string         `json:"driver"`
	Run        int            `json:"run"`
	Seed       uint64         `json:"seed"`
	Outcome    string         `json:"outcome"` // ok | infeasible | violation
	Infeasible string         `json:"infeasible,omitempty"`
	Stats      map[string]int `json:"stats,omitempty"`
	Viol       []ReplayFile   `json:"violations,omitempty"`
	Sig        string         `json:"sig"`        // distinctness signature (shape of what was executed)
	Nontrivial bool           `json:"nontrivial"` // by the driver's stated rule
	Sample     any            `json:"sample,omitempty"`
	VirtualNs  int64          `json:"virtual_ns,omitempty"`
	EventHash  string         `json:"event_hash,omitempty"` // determinism self-test
	WallMs     int64          `json:"wall_ms"`
	Extra      map[string]any `json:"extra,omitempty"`
}

// ReplayFile is what is written under /verif/replays for a violation.
type ReplayFile struct {
	Property  string          `json:"property"`
	Driver    string          `json:"driver"`
	Seed      uint64          `json:"seed"`
	Tier      string          `json:"tier,omitempty"`
	Cfg       json.RawMessage `json:"cfg"`
	Ops       json.RawMessage `json:"ops,omitempty"`
	Schedule  []uint16        `json:"schedule,omitempty"`
	Faults    []Fault         `json:"faults,omitempty"`
	Violation Violation       `json:"violation"`
	Minimised bool            `json:"minimised"`
	OpsCount  int             `json:"ops_count"`
	Note      string          `json:"note,omitempty"`
}

var (
	flProp     string
	flSeed     uint64
	flStart    int
	flRuns     int
	flTier     string
	flScratch  string
	flReplay   string
	flBudget   int
	flDet      bool
	flVerbose  bool
	flSamples  int
	flMinimise bool
)

func usage() {
	fmt.Fprintln(os.Stderr, "usage: harness <driver> [flags]   drivers: "+strings.Join(driverNames(), " "))
	os.Exit(2)
}

type driverFn func(run int, seed uint64) RunReport

var drivers = map[string]driverFn{}
var replayers = map[string]func(rf *ReplayFile) (reproduced bool, got string){}

func driverNames() []string {
	var ns []string
	for n := range drivers {
		ns = append(ns, n)
	}
	sort.Strings(ns)
	return ns
}

func main() {
	if len(os.Args) < 2 {
		usage()
	}
	drv := os.Args[1]
	fs := flag.NewFlagSet(drv, flag.ExitOnError)
	fs.StringVar(&flProp, "prop", "", "property id whose violations are reported")
	fs.Uint64Var(&flSeed, "seed", 1, "VERIF_SEED")
	fs.IntVar(&flStart, "start", 0, "first run index")
	fs.IntVar(&flRuns, "runs", 1, "number of runs")
	fs.StringVar(&flTier, "tier", "quick", "quick|thorough")
	fs.StringVar(&flScratch, "scratch", "", "scratch directory (default: /dev/shm or TMPDIR)")
	fs.StringVar(&flReplay, "replay", "", "replay file")
	fs.IntVar(&flBudget, "budget", 0, "wall-clock budget in seconds for this worker (0 = none)")
	fs.BoolVar(&flDet, "det", false, "determinism mode: print only run index and event hash")
	fs.BoolVar(&flVerbose, "v", false, "verbose")
	fs.IntVar(&flSamples, "samples", 2, "number of runs for which the full case is included")
	fs.BoolVar(&flMinimise, "minimise", true, "minimise violations before reporting")
	fs.Parse(os.Args[2:])

	if flScratch == "" {
		base := os.Getenv("VERIF_SCRATCH")
		if base == "" {
			if st, err := os.Stat("/dev/shm"); err == nil && st.IsDir() {
				base = "/dev/shm"
			} else {
				base = os.TempDir()
			}
		}
		d, err := os.MkdirTemp(base, "verif-run.")
		if err != nil {
			fmt.Fprintln(os.Stderr, "scratch:", err)
			os.Exit(2)
		}
		flScratch = d
		defer os.RemoveAll(d)
	}
	// the engine prints a lot; keep stdout for the protocol
	realStdout := os.Stdout
	devnull, _ := os.OpenFile("/dev/null", os.O_WRONLY, 0)
	os.Stdout = devnull
	if os.Getenv("VERIF_ENGINE_STDOUT") != "" {
		os.Stdout = os.Stderr
		disk.SimDebug = true
		simsync.DebugOwners = true
		simrt.DumpStacks = os.Getenv("VERIF_DUMP_STACKS") != ""
	}
	emit := func(prefix string, v any) {
		b, _ := json.Marshal(v)
		fmt.Fprintf(realStdout, "%s %s\n", prefix, b)
	}

	if drv == "dump" {
		dumpReplay(flReplay)
		os.RemoveAll(flScratch)
		return
	}
	if drv == "replay" {
		b, err := os.ReadFile(flReplay)
		if err != nil {
			fmt.Fprintln(os.Stderr, err)
			os.RemoveAll(flScratch)
			os.Exit(2)
		}
		var rf ReplayFile
		if err := json.Unmarshal(b, &rf); err != nil {
			fmt.Fprintln(os.Stderr, err)
			os.RemoveAll(flScratch)
			os.Exit(2)
		}
		rp := replayers[rf.Driver]
		if rp == nil {
			fmt.Fprintln(os.Stderr, "no replayer for driver", rf.Driver)
			os.RemoveAll(flScratch)
			os.Exit(2)
		}
		limit := 150 * time.Second
		if rf.Tier == "thorough" {
			limit = 600 * time.Second
		}
		type rres struct {
			ok  bool
			got string
		}
		rc := make(chan rres, 1)
		go func() {
			ok, got := rp(&rf)
			rc <- rres{ok, got}
		}()
		var ok bool
		var got string
		select {
		case r := <-rc:
			ok, got = r.ok, r.got
		case <-time.After(limit):
			buf := make([]byte, 1<<20)
			n := runtime.Stack(buf, true)
			os.MkdirAll("/verif/.cache/logs", 0755)
			hf := fmt.Sprintf("/verif/.cache/logs/hang-replay-%s-%d.txt", rf.Property, rf.Seed)
			os.WriteFile(hf, buf[:n], 0644)
			ok = rf.Violation.Class == "hang"
			got = "hang (goroutine dump in " + hf + ")"
		}
		emit("REPLAY", map[string]any{"reproduced": ok, "want": rf.Violation.Key(), "got": got})
		os.RemoveAll(flScratch)
		if ok {
			os.Exit(1)
		}
		os.Exit(0)
	}

	d := drivers[drv]
	if d == nil {
		usage()
	}
	t0 := time.Now()
	done := 0
	// per-run watchdog: a run that does not finish is reported as a hang (with the goroutine
	// dump) and ends this worker; the orchestrator continues with the next chunk
	var curRun, curStart int64
	var curSeed uint64
	go func() {
		limit := int64(90)
		if flTier == "thorough" {
			limit = 300
		}
		if raceEnabled {
			limit = 240
		}
		for {
			time.Sleep(500 * time.Millisecond)
			st := atomic.LoadInt64(&curStart)
			if lp := atomic.LoadInt64(&lastProgress); lp > st {
				st = lp // the run is slow but alive: the watchdog measures time without progress
			}
			lim := limit
			if overBudget() && lim > 120 {
				lim = 120 // the batch is over: do not sit on a hung run for minutes
			}
			storm, _ := stormReason.Load().(string)
			if (st != 0 && time.Now().Unix()-st > lim) || storm != "" {
				buf := make([]byte, 1<<20)
				n := runtime.Stack(buf, true)
				stack := string(buf[:n])
				site := "?"
				if i := strings.Index(stack, "goroutine 1 "); i >= 0 {
					site = panicSite(stack[i:])
				}
				rep := RunReport{Driver: drv, Run: int(atomic.LoadInt64(&curRun)), Seed: curSeed, Outcome: "violation", Sig: "hang", Nontrivial: true}
				v := Violation{Property: flProp, Class: "hang", Site: site, Detail: fmt.Sprintf("run did not finish within %d s; main goroutine in %s", lim, site)}
				if storm != "" {
					v.Detail = storm
				}
				os.MkdirAll("/verif/.cache/logs", 0755)
				hf := fmt.Sprintf("/verif/.cache/logs/hang-%s-%d.txt", flProp, curSeed)
				os.WriteFile(hf, []byte(stack), 0644)
				rf := ReplayFile{Property: flProp, Driver: drv, Seed: curSeed, Tier: flTier, Violation: v, Note: "hang: full goroutine dump in " + hf + "; head: " + firstLines(stack, 40)}
				if liveCfg != nil {
					rf.Cfg = mustJSON(liveCfg)
				}
				if liveOps != nil {
					b, _ := marshalOps(*liveOps)
					rf.Ops = b
					rf.OpsCount = len(*liveOps)
					rf.Violation.Features = opFeatures(*liveOps)
					if sc, ok := liveCfg.(*SqlCfg); ok {
						rf.Violation.Features = sqlFeatures(sc, *liveOps)
					}
				}
				rep.Viol = []ReplayFile{rf}
				if flProp == "C19" {
					// C19 reports data races only: a run that exceeds the wall-clock watchdog under the
					// (10x slower) race build is abandoned and counted, not reported
					rep.Viol = nil
					rep.Outcome = "ok"
					rep.Nontrivial = false
					rep.Stats = map[string]int{"runs_abandoned_by_watchdog": 1}
				}
				emit("RUN", rep)
				emit("END", map[string]any{"runs": done + 1, "wall_s": time.Since(t0).Seconds(), "hang": true})
				os.RemoveAll(flScratch)
				os.Exit(0)
			}
		}
	}()
	for i := flStart; i < flStart+flRuns; i++ {
		if flBudget > 0 && time.Since(t0) > time.Duration(flBudget)*time.Second {
			break
		}
		seed := simrt.Mix(flSeed, uint64(i)+1)
		t1 := time.Now()
		curSeed = seed
		atomic.StoreInt64(&curRun, int64(i))
		atomic.StoreInt64(&curStart, t1.Unix())
		liveCfg, liveOps = nil, nil
		rep := safeRun(d, i, seed, drv)
		atomic.StoreInt64(&curStart, 0)
		rep.Driver = drv
		rep.Run = i
		rep.Seed = seed
		rep.WallMs = time.Since(t1).Milliseconds()
		if flDet {
			emit("DET", map[string]any{"run": i, "hash": rep.EventHash, "sig": rep.Sig})
		} else {
			if done >= flSamples {
				rep.Sample = nil
			}
			emit("RUN", rep)
		}
		done++
		if done%50 == 0 {
			runtime.GC()
		}
	}
	emit("END", map[string]any{"runs": done, "wall_s": time.Since(t0).Seconds()})
	os.RemoveAll(flScratch)
}

func hashEvents(evs []disk.SimEvent, extra ...string) string {
	h := sha256.New()
	for i := range evs {
		e := &evs[i]
		fmt.Fprintf(h, "%c|%d|%s|%d|%d|", e.Kind, e.Page, e.Mark, e.Arg, e.Arg2)
		h.Write(e.Data)
	}
	for _, x := range extra {
		h.Write([]byte(x))
	}
	return hex.EncodeToString(h.Sum(nil))[:24]
}

func shapeSig(parts ...string) string {
	h := sha256.Sum256([]byte(strings.Join(parts, "\x00")))
	return hex.EncodeToString(h[:])[:16]
}

func mustJSON(v any) json.RawMessage {
	b, err := json.Marshal(v)
	if err != nil {
		panic(err)
	}
	return b
}

// liveCfg / liveOps: what the current run is executing (for the hang report)
var liveCfg any
var liveOps *[]Op

func firstLines(s string, n int) string {
	lines := strings.SplitN(s, "\n", n+1)
	if len(lines) > n {
		lines = lines[:n]
	}
	return strings.Join(lines, "\n")
}

// lastProgress: unix time of the last sign of life of the current run (an operation executed, a
// crash image recovered, a simulated run finished). The hang watchdog measures time since then.
var lastProgress int64

func progressTick() { atomic.StoreInt64(&lastProgress, time.Now().Unix()) }

// minimisation is expensive: at most a few per worker process, and none after the worker's budget
var minimisedSoFar int
var workerStart = time.Now()

// retry storm: see SUT.AutoSQL. The statement never returns; the watchdog goroutine reports the run
// as a hang at once and ends the worker (the engine's goroutines keep spinning).
const retryStormLimit = 20000

var stormReason atomic.Value

func reportRetryStorm(sql string, n int64) {
	stormReason.Store(fmt.Sprintf("statement was aborted and re-queued %d times without completing (single driver, no competing transaction): %s", n, sql))
	select {}
}

// overBudget: the worker's wall-clock budget is used up; long explorations inside one run stop
// early (less coverage, never a different verdict on what was explored).
func overBudget() bool {
	return flBudget > 0 && time.Since(workerStart) > time.Duration(flBudget)*time.Second
}

func mayMinimise() bool {
	if !flMinimise || minimisedSoFar >= 3 {
		return false
	}
	if flBudget > 0 && time.Since(workerStart) > time.Duration(flBudget)*time.Second {
		return false
	}
	minimisedSoFar++
	return true
}

// safeRun: a panic that escapes a driver (an engine anomaly the observer code did not expect, e.g. a
// catalog that lost a column) is reported as a violation of the property under test with the
// innermost repository frame as site; it never takes the worker down silently.
func safeRun(d driverFn, i int, seed uint64, drv string) (rep RunReport) {
	defer func() {
		if r := recover(); r != nil {
			st := string(debug.Stack())
			v := Violation{Property: flProp, Class: "panic-while-observing", Site: panicSite(st), Detail: fmt.Sprintf("%v [%s]", r, repoFrames(st, 6))}
			rf := ReplayFile{Property: flProp, Driver: drv, Seed: seed, Tier: flTier, Violation: v, Note: firstLines(st, 40)}
			if liveCfg != nil {
				rf.Cfg = mustJSON(liveCfg)
			}
			if liveOps != nil {
				b, _ := marshalOps(*liveOps)
				rf.Ops = b
				rf.OpsCount = len(*liveOps)
			}
			rep = RunReport{Outcome: "violation", Sig: "panic", Nontrivial: true, Viol: []ReplayFile{rf}}
		}
	}()
	return d(i, seed)
}
