package main

// ops.go: operation lists (the replayable unit of every SQL-level simulation), their JSON form,
// and the executor that drives the engine and the reference model in lock step.

import (
	"encoding/json"
	"fmt"
	"math"
	"strconv"

	"github.com/ryogrid/SamehadaDB/lib/storage/disk"
)

type Op struct {
	T    int    `json:"t"`  // transaction slot
	Kind string `json:"op"` // begin | stmt | commit | abort | checkpoint | auto | stats | restart | crash
	Stmt *Stmt  `json:"stmt,omitempty"`
	SQL  string `json:"sql,omitempty"` // informational
}

// ---- JSON helpers: ints come back as float64, float32 is encoded as {"f":"bits"}

func encVal(v any) any {
	if f, ok := v.(float32); ok {
		return map[string]any{"f": strconv.FormatUint(uint64(math.Float32bits(f)), 16)}
	}
	return v
}

func decVal(v any) any {
	switch x := v.(type) {
	case float64:
		return int32(x)
	case map[string]any:
		if h, ok := x["f"].(string); ok {
			u, _ := strconv.ParseUint(h, 16, 32)
			return math.Float32frombits(uint32(u))
		}
	}
	return v
}

func (p *Pred) fix(dec bool) {
	if p == nil {
		return
	}
	if p.Logic != "" {
		p.L.fix(dec)
		p.R.fix(dec)
		return
	}
	if dec {
		p.Val = decVal(p.Val)
	} else {
		p.Val = encVal(p.Val)
	}
}

func (s *Stmt) fix(dec bool) {
	if s == nil {
		return
	}
	f := encVal
	if dec {
		f = decVal
	}
	for _, r := range s.Rows {
		for i := range r {
			r[i] = f(r[i])
		}
	}
	for i := range s.Set {
		s.Set[i].Val = f(s.Set[i].Val)
	}
	s.Where.fix(dec)
}

func cloneStmt(s *Stmt) *Stmt {
	if s == nil {
		return nil
	}
	b, _ := marshalOps([]Op{{Stmt: s}})
	ops, _ := unmarshalOps(b)
	return ops[0].Stmt
}

func marshalOps(ops []Op) ([]byte, error) {
	// deep copy through encoding; encode float32 first
	cp := make([]Op, len(ops))
	for i, o := range ops {
		cp[i] = o
		if o.Stmt != nil {
			st := *o.Stmt
			st.Rows = make([][]any, len(o.Stmt.Rows))
			for j, r := range o.Stmt.Rows {
				st.Rows[j] = append([]any{}, r...)
			}
			st.Set = append([]SetItem{}, o.Stmt.Set...)
			st.Where = clonePred(o.Stmt.Where)
			st.fix(false)
			cp[i].Stmt = &st
			cp[i].SQL = o.Stmt.SQL()
		}
	}
	return json.Marshal(cp)
}

func clonePred(p *Pred) *Pred {
	if p == nil {
		return nil
	}
	c := *p
	c.L = clonePred(p.L)
	c.R = clonePred(p.R)
	return &c
}

func unmarshalOps(b []byte) ([]Op, error) {
	var ops []Op
	if err := json.Unmarshal(b, &ops); err != nil {
		return nil, err
	}
	for i := range ops {
		ops[i].Stmt.fix(true)
	}
	return ops, nil
}

// ---------------------------------------------------------------- executor

type slotState struct {
	st  *STxn
	mt  *MTxn
	rec *TxnRec
}

// TxnRec is the life of one transaction in trace positions (for classifying crash points).
type TxnRec struct {
	ID        int64
	BeginPos  int
	EndPos    int // -1 while open
	Committed bool
	Touched   []string // committed row images it changed or deleted
	Inserted  int
}

func tracePos() int {
	if r := disk.SimRec; r != nil {
		return len(r.Events)
	}
	return 0
}

// OpOutcome is what happened to one op.
type OpOutcome struct {
	Status string // ok | aborted | error | skipped | panic
	Detail string
}

// Divergence: engine answer differs from the reference model while the run is still alive.
type Divergence struct {
	OpIndex int
	Class   string
	Detail  string
	Table   string
	Missing []string
	Extra   []string
	Join    bool // the statement was a multi-table query
}

// Exec drives engine + model.
type Exec struct {
	S                    *SUT
	M                    *Model
	Slots                map[int]*slotState
	Snaps                []Snapshot // Snaps[i] = committed model state after i commits (i=0: state at start)
	Commits              int
	Aborts               int
	ConflictAborts       int
	Outcomes             []OpOutcome
	Div                  []Divergence
	Panic                *PanicInfo
	CheckSelects         bool // compare SELECT answers with the model (statement-level oracle)
	PinCheck             bool
	PinViol              []string
	PlanShapes           map[string]int
	PinGrowth, PinChecks int
	PlanByStmt           map[string]string // statement text -> plan shape (last execution)
	StmtCount            int
	Txns                 []*TxnRec
	Late                 []TableSpec  // tables a "ddl" op may create (crashsim)
	Created              []*TableSpec // tables that exist (set-up + acknowledged ddl ops)
}

func NewExec(s *SUT, m *Model) *Exec {
	e := &Exec{S: s, M: m, Slots: map[int]*slotState{}, PlanShapes: map[string]int{}}
	e.Snaps = append(e.Snaps, m.Snapshot())
	return e
}

func (e *Exec) open() int {
	n := 0
	for _, sl := range e.Slots {
		if sl != nil {
			n++
		}
	}
	return n
}

func (e *Exec) fail(i int, pi *PanicInfo) OpOutcome {
	if e.Panic == nil {
		e.Panic = pi
	}
	return OpOutcome{"panic", pi.String()}
}

// Run executes op i. Returns false when the run cannot continue (engine panicked).
func (e *Exec) Run(i int, op Op) bool {
	progressTick()
	out := e.run1(i, op)
	e.Outcomes = append(e.Outcomes, out)
	return out.Status != "panic"
}

func (e *Exec) abortSlot(i int, t int, conflict bool) *PanicInfo {
	sl := e.Slots[t]
	if sl == nil {
		return nil
	}
	disk.SimMark("abort-called", sl.st.ID(), 0)
	pi := sl.st.Abort()
	disk.SimMark("abort-returned", sl.st.ID(), 0)
	sl.rec.Touched = sl.mt.TouchedBefore
	sl.rec.EndPos = tracePos()
	sl.mt.Abort()
	delete(e.Slots, t)
	e.Aborts++
	if conflict {
		e.ConflictAborts++
	}
	return pi
}

func (e *Exec) run1(i int, op Op) OpOutcome {
	switch op.Kind {
	case "begin":
		if e.Slots[op.T] != nil {
			return OpOutcome{"skipped", "slot busy"}
		}
		st, pi := e.S.Begin()
		if pi != nil {
			return e.fail(i, pi)
		}
		tr := &TxnRec{ID: st.ID(), BeginPos: tracePos(), EndPos: -1}
		e.Txns = append(e.Txns, tr)
		e.Slots[op.T] = &slotState{st: st, mt: e.M.Begin(), rec: tr}
		disk.SimMark("begin", st.ID(), int64(op.T))
		return OpOutcome{"ok", ""}
	case "stmt":
		sl := e.Slots[op.T]
		if sl == nil {
			return OpOutcome{"skipped", "no txn"}
		}
		if e.Late != nil && e.M.Table(op.Stmt.Table) == nil {
			return OpOutcome{"skipped", "table not created (minimised history)"}
		}
		var before map[int32]int32
		if e.PinCheck {
			before = e.S.PinVector()
		}
		disk.SimMark("stmt-begin", sl.st.ID(), int64(i))
		var res ExecResult
		if op.Stmt.Plan && op.Stmt.Kind == "insert" {
			res = sl.st.PlanInsert(op.Stmt, e.M.Table(op.Stmt.Table))
		} else {
			res = sl.st.Exec(op.Stmt.SQL())
		}
		disk.SimMark("stmt-end", sl.st.ID(), int64(i))
		e.StmtCount++
		if res.Plan != "" {
			e.PlanShapes[op.Stmt.Kind+":"+planKind(res.Plan)]++
			if e.PlanByStmt == nil {
				e.PlanByStmt = map[string]string{}
			}
			e.PlanByStmt[op.Stmt.SQL()] = res.Plan
		}
		if res.Panic != nil {
			return e.fail(i, res.Panic)
		}
		if e.PinCheck {
			after := e.S.PinVector()
			if d := pinDiff(before, after); d != "" {
				e.PinViol = append(e.PinViol, fmt.Sprintf("op %d %s: %s", i, op.Stmt.SQL(), d))
			}
			e.PinGrowth += pinGrowth(before, after)
			e.PinChecks++
		}
		if res.Aborted {
			if pi := e.abortSlot(i, op.T, true); pi != nil {
				return e.fail(i, pi)
			}
			return OpOutcome{"aborted", "statement aborted its transaction"}
		}
		if res.Err != nil {
			// statement refused without abort flag: treat like an abort of the transaction
			if pi := e.abortSlot(i, op.T, true); pi != nil {
				return e.fail(i, pi)
			}
			return OpOutcome{"error", res.Err.Error()}
		}
		rows, err := sl.mt.Apply(op.Stmt)
		if err != nil {
			return OpOutcome{"error", err.Error()}
		}
		sl.rec.Touched = sl.mt.TouchedBefore
		if op.Stmt.Kind == "select" && e.CheckSelects {
			want, got := canonRows(rows), canonRows(res.Rows)
			if !sameStrings(want, got) {
				e.Div = append(e.Div, Divergence{OpIndex: i, Class: "select-answer", Detail: fmt.Sprintf("%s: %s", op.Stmt.SQL(), diffStrings(want, got)), Join: op.Stmt.Join != nil})
			}
		}
		return OpOutcome{"ok", ""}
	case "commit":
		sl := e.Slots[op.T]
		if sl == nil {
			return OpOutcome{"skipped", "no txn"}
		}
		// "writing transaction" is judged by the engine's own write set (what it will log)
		wrote := int64(0)
		if len(sl.st.Txn.GetWriteSet()) > 0 {
			wrote = 1
		}
		// model-level conflict check: two open overlays on the same committed row must not both commit
		for t2, o := range e.Slots {
			if t2 != op.T && o != nil && sl.mt.Touches(o.mt) {
				e.Div = append(e.Div, Divergence{OpIndex: i, Class: "write-write-overlap", Detail: fmt.Sprintf("slots %d and %d both changed the same committed row", op.T, t2)})
			}
		}
		disk.SimMark("commit-called", sl.st.ID(), wrote)
		pi := sl.st.Commit()
		if pi != nil {
			return e.fail(i, pi)
		}
		sl.rec.Touched = sl.mt.TouchedBefore
		sl.mt.Commit()
		e.Commits++
		e.Snaps = append(e.Snaps, e.M.Snapshot())
		disk.SimMark("commit-returned", sl.st.ID(), wrote)
		sl.rec.Committed = true
		sl.rec.EndPos = tracePos()
		delete(e.Slots, op.T)
		return OpOutcome{"ok", ""}
	case "abort":
		if e.Slots[op.T] == nil {
			return OpOutcome{"skipped", "no txn"}
		}
		if pi := e.abortSlot(i, op.T, false); pi != nil {
			return e.fail(i, pi)
		}
		return OpOutcome{"ok", ""}
	case "checkpoint":
		if e.open() > 0 {
			return OpOutcome{"skipped", "open transactions"}
		}
		disk.SimMark("checkpoint-begin", 0, 0)
		if pi := e.S.Checkpoint(); pi != nil {
			return e.fail(i, pi)
		}
		disk.SimMark("checkpoint-end", 0, 0)
		return OpOutcome{"ok", ""}
	case "stats":
		if e.open() > 0 {
			return OpOutcome{"skipped", "open transactions"}
		}
		if pi := e.S.RefreshStats(); pi != nil {
			return e.fail(i, pi)
		}
		return OpOutcome{"ok", ""}
	case "ddl":
		// CREATE TABLE in the middle of the history (its own transaction through the public entry point)
		if e.open() > 0 {
			return OpOutcome{"skipped", "open transactions"}
		}
		if op.T < 0 || op.T >= len(e.Late) || e.M.Table(e.Late[op.T].Name) != nil {
			return OpOutcome{"skipped", "no such late table / exists"}
		}
		ts := &e.Late[op.T]
		tr := &TxnRec{ID: -1, BeginPos: tracePos(), EndPos: -1}
		e.Txns = append(e.Txns, tr)
		disk.SimMark("commit-called", -1, 1)
		disk.SimMark("ddl-begin", int64(1000+op.T), 0)
		res := e.S.AutoSQL(createTableSQL(ts))
		disk.SimMark("ddl-end", int64(1000+op.T), 0)
		if res.Panic != nil {
			return e.fail(i, res.Panic)
		}
		if res.Err != nil {
			disk.SimMark("commit-failed", -1, 0)
			tr.EndPos = tracePos()
			return OpOutcome{"error", res.Err.Error()}
		}
		e.M.AddTable(ts.Name, ts.Cols)
		e.Created = append(e.Created, ts)
		e.Commits++
		e.Snaps = append(e.Snaps, e.M.Snapshot())
		disk.SimMark("commit-returned", -1, 0)
		tr.Committed = true
		tr.EndPos = tracePos()
		return OpOutcome{"ok", ""}
	case "auto":
		// single-statement transaction through the public entry point (request manager, retries)
		if e.open() > 0 {
			return OpOutcome{"skipped", "open transactions"}
		}
		if e.Late != nil && e.M.Table(op.Stmt.Table) == nil {
			return OpOutcome{"skipped", "table not created (minimised history)"}
		}
		mt := e.M.Begin()
		wrote := int64(0)
		if op.Stmt.Kind != "select" {
			wrote = 1
		}
		tr := &TxnRec{ID: -1, BeginPos: tracePos(), EndPos: -1}
		e.Txns = append(e.Txns, tr)
		// the model is applied first only to learn which committed rows the statement touches
		if op.Stmt.Kind == "update" || op.Stmt.Kind == "delete" {
			probe := e.M.Begin()
			probe.Apply(cloneStmt(op.Stmt))
			tr.Touched = probe.TouchedBefore
		}
		disk.SimMark("commit-called", -1, wrote)
		res := e.S.AutoSQL(op.Stmt.SQL())
		if res.Panic != nil {
			return e.fail(i, res.Panic)
		}
		if res.Err != nil {
			mt.Abort()
			disk.SimMark("commit-failed", -1, 0)
			tr.EndPos = tracePos()
			return OpOutcome{"error", res.Err.Error()}
		}
		rows, _ := mt.Apply(op.Stmt)
		mt.Commit()
		e.Commits++
		e.Snaps = append(e.Snaps, e.M.Snapshot())
		disk.SimMark("commit-returned", -1, 0)
		tr.Committed = true
		tr.EndPos = tracePos() // txn id unknown through this path: durability of its COMMIT is checked by C01 images
		if op.Stmt.Kind == "select" && e.CheckSelects {
			want, got := canonRows(rows), canonRows(res.Rows)
			if !sameStrings(want, got) {
				e.Div = append(e.Div, Divergence{OpIndex: i, Class: "select-answer", Detail: fmt.Sprintf("%s: %s", op.Stmt.SQL(), diffStrings(want, got)), Join: op.Stmt.Join != nil})
			}
		}
		return OpOutcome{"ok", ""}
	}
	return OpOutcome{"skipped", "unknown op " + op.Kind}
}

// VerifyCommitted compares every table (full heap scan) with the committed model state.
// Only meaningful when no transaction is open.
func (e *Exec) VerifyCommitted(where string) []Divergence {
	var out []Divergence
	snap := e.M.Snapshot()
	for _, t := range e.M.Tables {
		rows, _, res := e.S.ScanHeap(t.Name)
		if res.Panic != nil {
			out = append(out, Divergence{OpIndex: -1, Class: "scan-panic", Detail: where + ": " + res.Panic.String()})
			continue
		}
		if res.Err != nil || res.Aborted {
			out = append(out, Divergence{OpIndex: -1, Class: "scan-failed", Detail: fmt.Sprintf("%s: table %s: err=%v aborted=%v", where, t.Name, res.Err, res.Aborted)})
			continue
		}
		got := canonRows(rows)
		if !sameStrings(snap[t.Name], got) {
			ms, ex := multisetDiff(snap[t.Name], got)
			out = append(out, Divergence{OpIndex: -1, Class: "table-contents", Detail: fmt.Sprintf("%s: table %s: %s", where, t.Name, diffStrings(snap[t.Name], got)), Table: t.Name, Missing: ms, Extra: ex})
		}
	}
	return out
}
