package main

// drv_units.go: dedicated component drivers against small reference models
//   pagesim (C15 slotted page), locksim (C16 lock manager, sequential part),
//   bpmsim (C13 buffer pool), idxsim (C17 index containers, sequential part).
// Operation sequences are a pure function of (seed, n_ops): a replay file stores the seed and the
// length of the shortest failing prefix (found by bisection).

import (
	"bytes"
	"encoding/json"
	"fmt"
	"os"
	"sort"
	"strings"

	"github.com/ryogrid/SamehadaDB/lib/recovery"
	"github.com/ryogrid/SamehadaDB/lib/samehada"
	"github.com/ryogrid/SamehadaDB/lib/storage/access"
	"github.com/ryogrid/SamehadaDB/lib/storage/buffer"
	"github.com/ryogrid/SamehadaDB/lib/storage/disk"
	"github.com/ryogrid/SamehadaDB/lib/storage/page"
	"github.com/ryogrid/SamehadaDB/lib/storage/tuple"
	"github.com/ryogrid/SamehadaDB/lib/types"
	"verif/simrt"
)

type UnitCfg struct {
	NOps   int    `json:"n_ops"`
	Kind   string `json:"kind,omitempty"`
	Frames int    `json:"frames,omitempty"`
}

type unitResult struct {
	viol       *Violation
	stats      map[string]int
	sig        string
	sample     []string
	infeasible string
}

type unitFn func(seed uint64, cfg UnitCfg, dir string) unitResult

func registerUnit(name string, prop string, gen func(r *rng, tier string) UnitCfg, fn unitFn) {
	drivers[name] = func(run int, seed uint64) RunReport {
		rep := RunReport{}
		cfg := gen(newRng(simrt.Mix(seed, 1)), flTier)
		dir := fmt.Sprintf("%s/u", flScratch)
		os.MkdirAll(dir, 0755)
		defer os.RemoveAll(dir)
		liveCfg = &cfg
		res := fn(seed, cfg, dir)
		if res.infeasible != "" {
			rep.Outcome, rep.Infeasible = "infeasible", res.infeasible
			return rep
		}
		rep.Stats = res.stats
		rep.Sig = res.sig
		rep.Nontrivial = true
		rep.EventHash = res.sig
		rep.Sample = map[string]any{"cfg": cfg, "ops": res.sample}
		rep.Outcome = "ok"
		if res.viol != nil {
			v := *res.viol
			// bisection on the prefix length
			lo, hi := 1, cfg.NOps
			if len(v.Faults) > 0 && v.Faults[0].After+1 < hi {
				hi = v.Faults[0].After + 1
			}
			best := cfg
			best.NOps = hi
			if flMinimise {
				for lo < hi {
					mid := (lo + hi) / 2
					c2 := cfg
					c2.NOps = mid
					r2 := fn(seed, c2, dir)
					if r2.viol != nil && r2.viol.Key() == v.Key() {
						hi = mid
						best = c2
						v = *r2.viol
					} else {
						lo = mid + 1
					}
				}
			}
			r3 := fn(seed, best, dir)
			ops := []string{}
			if r3.viol != nil {
				v = *r3.viol
				ops = r3.sample
			}
			oj, _ := json.Marshal(ops)
			rep.Viol = []ReplayFile{{Property: prop, Driver: name, Seed: seed, Tier: flTier, Cfg: mustJSON(best), Ops: nil, Faults: v.Faults, Violation: v, Minimised: flMinimise, OpsCount: best.NOps, Note: "ops (informational, regenerated from the seed): " + string(oj)}}
			if v.Property == flProp {
				rep.Outcome = "violation"
			} else {
				rep.Extra = map[string]any{"other_property_observations": map[string]int{v.Property + ":" + v.Class: 1}}
				rep.Viol = nil
			}
		}
		return rep
	}
	replayers[name] = func(rf *ReplayFile) (bool, string) {
		var cfg UnitCfg
		if err := json.Unmarshal(rf.Cfg, &cfg); err != nil {
			return false, err.Error()
		}
		dir := fmt.Sprintf("%s/u", flScratch)
		os.MkdirAll(dir, 0755)
		defer os.RemoveAll(dir)
		res := fn(rf.Seed, cfg, dir)
		if res.viol != nil && res.viol.Key() == rf.Violation.Key() {
			return true, res.viol.Key() + " " + res.viol.Detail
		}
		return false, "not reproduced"
	}
}

func init() {
	registerUnit("pagesim", "C15", func(r *rng, tier string) UnitCfg {
		n := 20 + r.Intn(200)
		if tier == "thorough" {
			n += r.Intn(600)
		}
		return UnitCfg{NOps: n, Kind: []string{"small", "mixed", "big", "tiny"}[r.Intn(4)]}
	}, runPageSim)
	registerUnit("locksim", "C16", func(r *rng, tier string) UnitCfg {
		return UnitCfg{NOps: 10 + r.Intn(120), Kind: fmt.Sprintf("%d:%d", 2+r.Intn(4), 1+r.Intn(4))}
	}, runLockSim)
	registerUnit("bpmsim", "C13", func(r *rng, tier string) UnitCfg {
		n := 20 + r.Intn(200)
		if tier == "thorough" {
			n += r.Intn(800)
		}
		return UnitCfg{NOps: n, Frames: 1 + r.Intn(8), Kind: []string{"file", "file", "virtual"}[r.Intn(3)]}
	}, runBpmSim)
}

func newLogManager(dm *disk.DiskManager) *recovery.LogManager { return recovery.NewLogManager(dm) }

func unitViol(prop, class, detail string, at int) *Violation {
	return &Violation{Property: prop, Class: class, Detail: fmt.Sprintf("op %d: %s", at, detail), Faults: []Fault{{Kind: "at-op", After: at}}}
}

// ---------------------------------------------------------------- C15: slotted page

type mslot struct {
	data   []byte
	marked bool
}

func runPageSim(seed uint64, cfg UnitCfg, dir string) (res unitResult) {
	res.stats = map[string]int{}
	backgroundOff()
	simrt.SeedRun(seed, false)
	path := dir + "/p"
	removeDBFiles(path)
	var pi *PanicInfo
	var opLog []string
	at := 0
	func() {
		defer catchPanic(&pi)
		shi := samehada.NewSamehadaInstance(path, 8)
		defer func() {
			saved := disk.SimRec
			disk.SimRec = nil
			shi.Shutdown(samehada.ShutdownPatternRemoveFiles)
			disk.SimRec = saved
		}()
		lm := shi.GetLogManager()
		lm.DeactivateLogging()
		txn := shi.GetTransactionManager().Begin(nil)
		txn.SetIsRecoveryPhase(true)
		pg := shi.GetBufferPoolManager().NewPage()
		tp := access.CastPageAsTablePage(pg)
		tp.Init(pg.GetPageID(), types.InvalidPageID, lm, nil, txn, false)
		pid := pg.GetPageID()
		r := newRng(simrt.Mix(seed, 5))
		var slots []*mslot
		used := func() int {
			n := 0
			for _, s := range slots {
				if s != nil {
					n += len(s.data)
				}
			}
			return n
		}
		free := func() int { return pageSize - used() - 24 - 8*len(slots) }
		rowSize := func() int {
			switch cfg.Kind {
			case "tiny":
				return 1 + r.Intn(6)
			case "small":
				return 1 + r.Intn(60)
			case "big":
				return 200 + r.Intn(1800)
			}
			switch r.Intn(6) {
			case 0:
				return 1 + r.Intn(4)
			case 1:
				return 500 + r.Intn(3500)
			case 2:
				f := free() - 8
				if f > 0 && r.Chance(0.5) {
					return f // exactly fills the page
				}
				return 1 + r.Intn(100)
			default:
				return 1 + r.Intn(300)
			}
		}
		mkData := func(n int) []byte {
			b := make([]byte, n)
			for i := range b {
				b[i] = byte(r.Intn(256))
			}
			return b
		}
		pick := func(pred func(*mslot) bool) int {
			var c []int
			for i, s := range slots {
				if s != nil && pred(s) {
					c = append(c, i)
				}
			}
			if len(c) == 0 {
				return -1
			}
			return c[r.Intn(len(c))]
		}
		verify := func() *Violation {
			if msg := pageLayoutCheck(tp.Data()[:]); msg != "" {
				return unitViol("C15", "page-layout", msg, at)
			}
			for i, s := range slots {
				rid := &page.RID{}
				rid.Set(pid, uint32(i))
				if s == nil || s.marked {
					continue
				}
				got, err := tp.GetTuple(rid, lm, nil, txn)
				if err != nil || got == nil {
					return unitViol("C15", "row-unreadable", fmt.Sprintf("slot %d: %v", i, err), at)
				}
				if !bytes.Equal(got.Data()[:got.Size()], s.data) {
					return unitViol("C15", "row-changed", fmt.Sprintf("slot %d holds %d bytes that differ from the %d bytes stored (another operation changed it, or it was stored wrongly)", i, got.Size(), len(s.data)), at)
				}
			}
			// free space: a row of exactly the free size must be accepted, one byte more refused - checked by the insert op
			return nil
		}
		for at = 0; at < cfg.NOps; at++ {
			switch k := r.Intn(10); {
			case k <= 3: // insert
				n := rowSize()
				d := mkData(n)
				want := free() >= n+8
				t := tuple.NewTuple(nil, uint32(n), d)
				rid, err := tp.InsertTuple(t, lm, nil, txn)
				opLog = append(opLog, fmt.Sprintf("insert %dB -> %v", n, err == nil))
				res.stats["op:insert"]++
				if (err == nil) != want {
					res.viol = unitViol("C15", "free-space-accounting", fmt.Sprintf("insert of %d bytes: page says fits=%v, model (4096 - rows %d - header 24 - %d slots*8 = %d free) says fits=%v", n, err == nil, used(), len(slots), free(), want), at)
					return
				}
				if err == nil {
					sl := int(rid.GetSlotNum())
					wantSlot := len(slots)
					for i, s := range slots {
						if s == nil {
							wantSlot = i
							break
						}
					}
					if sl != wantSlot {
						res.viol = unitViol("C15", "slot-choice", fmt.Sprintf("insert went to slot %d, first free slot is %d", sl, wantSlot), at)
						return
					}
					if sl == len(slots) {
						slots = append(slots, nil)
					}
					slots[sl] = &mslot{data: d}
					if free() == 0 {
						res.stats["page_completely_full"]++
					}
				} else {
					res.stats["insert_refused_no_space"]++
				}
			case k <= 6: // update
				i := pick(func(s *mslot) bool { return !s.marked })
				if i < 0 {
					continue
				}
				old := slots[i]
				var n int
				switch r.Intn(3) {
				case 0:
					n = len(old.data)
				case 1:
					n = 1 + r.Intn(len(old.data))
				default:
					n = len(old.data) + 1 + r.Intn(400)
				}
				d := mkData(n)
				rollback := r.Chance(0.5)
				rid := &page.RID{}
				rid.Set(pid, uint32(i))
				nt := tuple.NewTuple(rid, uint32(n), d)
				ot := new(tuple.Tuple)
				ok, err, _ := tp.UpdateTuple(nt, nil, nil, ot, rid, txn, nil, lm, rollback)
				opLog = append(opLog, fmt.Sprintf("update slot %d %dB->%dB rollback=%v -> %v %v", i, len(old.data), n, rollback, ok, err))
				res.stats["op:update"]++
				wantOK := true
				if free()+len(old.data) < n {
					wantOK = false
				} else if n < len(old.data) && !rollback {
					wantOK = false // shrinking in place is refused outside rollback (row is relocated by the caller)
				}
				if ok != wantOK {
					res.viol = unitViol("C15", "update-decision", fmt.Sprintf("update slot %d %d->%d bytes (rollback=%v): page says %v (%v), model says %v (free %d)", i, len(old.data), n, rollback, ok, err, wantOK, free()), at)
					return
				}
				if ok {
					if n > len(old.data) {
						res.stats["update_grow"]++
					} else if n < len(old.data) {
						res.stats["update_shrink"]++
					}
					if !bytes.Equal(ot.Data()[:ot.Size()], old.data) {
						res.viol = unitViol("C15", "before-image", fmt.Sprintf("update slot %d returned a before-image that differs from the stored row", i), at)
						return
					}
					slots[i] = &mslot{data: d}
				}
			case k == 7: // mark delete
				i := pick(func(s *mslot) bool { return !s.marked })
				if i < 0 {
					continue
				}
				rid := &page.RID{}
				rid.Set(pid, uint32(i))
				ok, _ := tp.MarkDelete(rid, txn, nil, lm)
				opLog = append(opLog, fmt.Sprintf("markdelete slot %d -> %v", i, ok))
				res.stats["op:markdelete"]++
				if !ok {
					res.viol = unitViol("C15", "markdelete-refused", fmt.Sprintf("slot %d is live but MarkDelete returned false", i), at)
					return
				}
				slots[i].marked = true
			case k == 8: // apply delete
				i := pick(func(s *mslot) bool { return true })
				if i < 0 {
					continue
				}
				rid := &page.RID{}
				rid.Set(pid, uint32(i))
				tp.ApplyDelete(rid, txn, lm)
				opLog = append(opLog, fmt.Sprintf("applydelete slot %d (marked=%v)", i, slots[i].marked))
				res.stats["op:applydelete"]++
				slots[i] = nil
			default: // rollback delete
				i := pick(func(s *mslot) bool { return s.marked })
				if i < 0 {
					continue
				}
				rid := &page.RID{}
				rid.Set(pid, uint32(i))
				tp.RollbackDelete(rid, txn, lm)
				opLog = append(opLog, fmt.Sprintf("rollbackdelete slot %d", i))
				res.stats["op:rollbackdelete"]++
				slots[i].marked = false
			}
			if v := verify(); v != nil {
				res.viol = v
				return
			}
		}
	}()
	if pi != nil && res.viol == nil {
		res.viol = unitViol("C15", "page-op-panic", pi.String(), at)
		res.viol.Site = pi.Site
	}
	res.sample = opLog
	if len(res.sample) > 60 {
		res.sample = res.sample[len(res.sample)-60:]
	}
	res.sig = shapeSig(strings.Join(opLog, ";"))
	return
}

// ---------------------------------------------------------------- C16: lock manager (sequential)

func runLockSim(seed uint64, cfg UnitCfg, dir string) (res unitResult) {
	res.stats = map[string]int{}
	simrt.SeedRun(seed, false)
	var nT, nR int
	fmt.Sscanf(cfg.Kind, "%d:%d", &nT, &nR)
	r := newRng(simrt.Mix(seed, 6))
	var pi *PanicInfo
	var opLog []string
	at := 0
	func() {
		defer catchPanic(&pi)
		lmgr := access.NewLockManager(access.STRICT, access.SS2PLMode)
		path := dir + "/l"
		removeDBFiles(path)
		shi := samehada.NewSamehadaInstance(path, 8)
		defer func() {
			saved := disk.SimRec
			disk.SimRec = nil
			shi.Shutdown(samehada.ShutdownPatternRemoveFiles)
			disk.SimRec = saved
		}()
		logm := shi.GetLogManager()
		logm.DeactivateLogging()
		tm := access.NewTransactionManager(lmgr, logm)
		txns := make([]*access.Transaction, nT)
		// model: rid -> shared holders, exclusive holder (-1 none)
		sh := make([]map[int]bool, nR)
		ex := make([]int, nR)
		for i := range sh {
			sh[i] = map[int]bool{}
			ex[i] = -1
		}
		rids := make([]*page.RID, nR)
		for i := range rids {
			rids[i] = &page.RID{}
			rids[i].Set(types.PageID(7), uint32(i))
		}
		begin := func(t int) { txns[t] = tm.Begin(nil) }
		for t := 0; t < nT; t++ {
			begin(t)
		}
		checkViews := func() *Violation {
			for t := 0; t < nT; t++ {
				for i := 0; i < nR; i++ {
					if got := txns[t].IsSharedLocked(rids[i]); got != sh[i][t] {
						return unitViol("C16", "lock-view", fmt.Sprintf("txn %d row %d: IsSharedLocked=%v, model %v", t, i, got, sh[i][t]), at)
					}
					if got := txns[t].IsExclusiveLocked(rids[i]); got != (ex[i] == t) {
						return unitViol("C16", "lock-view", fmt.Sprintf("txn %d row %d: IsExclusiveLocked=%v, model %v", t, i, got, ex[i] == t), at)
					}
				}
			}
			// compatibility invariant on the model side is by construction; check the engine's views pairwise
			for i := 0; i < nR; i++ {
				xs, ss := 0, 0
				for t := 0; t < nT; t++ {
					if txns[t].IsExclusiveLocked(rids[i]) {
						xs++
					}
					if txns[t].IsSharedLocked(rids[i]) {
						ss++
					}
				}
				if xs > 1 {
					return unitViol("C16", "incompatible-locks-held", fmt.Sprintf("row %d: %d transactions hold it exclusively", i, xs), at)
				}
				if xs == 1 {
					for t := 0; t < nT; t++ {
						if txns[t].IsSharedLocked(rids[i]) && !txns[t].IsExclusiveLocked(rids[i]) {
							return unitViol("C16", "incompatible-locks-held", fmt.Sprintf("row %d: exclusive holder and another shared holder (txn %d)", i, t), at)
						}
					}
				}
			}
			return nil
		}
		for at = 0; at < cfg.NOps; at++ {
			t := r.Intn(nT)
			i := r.Intn(nR)
			others := func() (anyS, anyX bool) {
				for o := range sh[i] {
					if o != t && sh[i][o] {
						anyS = true
					}
				}
				if ex[i] >= 0 && ex[i] != t {
					anyX = true
				}
				return
			}
			switch k := r.Intn(10); {
			case k <= 3:
				_, ox := others()
				want := !ox
				got := lmgr.LockShared(txns[t], rids[i])
				opLog = append(opLog, fmt.Sprintf("S t%d r%d -> %v", t, i, got))
				res.stats["op:shared"]++
				if got != want {
					res.viol = unitViol("C16", "grant-decision", fmt.Sprintf("LockShared(txn %d, row %d) = %v, compatibility rules say %v (exclusive holder %d)", t, i, got, want, ex[i]), at)
					return
				}
				if got && ex[i] != t {
					sh[i][t] = true
				}
				if !got {
					res.stats["denied"]++
				}
			case k <= 6:
				os_, ox := others()
				want := !os_ && !ox
				got := lmgr.LockExclusive(txns[t], rids[i])
				opLog = append(opLog, fmt.Sprintf("X t%d r%d -> %v", t, i, got))
				res.stats["op:exclusive"]++
				if got != want {
					res.viol = unitViol("C16", "grant-decision", fmt.Sprintf("LockExclusive(txn %d, row %d) = %v, rules say %v (shared holders %v, exclusive holder %d)", t, i, got, want, keysOf(sh[i]), ex[i]), at)
					return
				}
				if got {
					ex[i] = t
				} else {
					res.stats["denied"]++
				}
			case k <= 8:
				if !sh[i][t] {
					continue // precondition of LockUpgrade: caller holds S
				}
				os_, ox := others()
				want := !os_ && !ox
				got := lmgr.LockUpgrade(txns[t], rids[i])
				opLog = append(opLog, fmt.Sprintf("U t%d r%d -> %v", t, i, got))
				res.stats["op:upgrade"]++
				if got != want {
					res.viol = unitViol("C16", "grant-decision", fmt.Sprintf("LockUpgrade(txn %d, row %d) = %v, rules say %v (shared holders %v, exclusive holder %d)", t, i, got, want, keysOf(sh[i]), ex[i]), at)
					return
				}
				if got {
					ex[i] = t
				} else {
					res.stats["denied"]++
				}
			default:
				// end of transaction: locks disappear only here
				if r.Chance(0.5) {
					tm.Commit(nil, txns[t])
				} else {
					tm.Abort(nil, txns[t])
				}
				opLog = append(opLog, fmt.Sprintf("END t%d", t))
				res.stats["op:end"]++
				for j := 0; j < nR; j++ {
					delete(sh[j], t)
					if ex[j] == t {
						ex[j] = -1
					}
				}
				begin(t)
			}
			if v := checkViews(); v != nil {
				res.viol = v
				return
			}
		}
	}()
	if pi != nil && res.viol == nil {
		res.viol = unitViol("C16", "lock-op-panic", pi.String(), at)
		res.viol.Site = pi.Site
	}
	res.sample = opLog
	if len(res.sample) > 80 {
		res.sample = res.sample[len(res.sample)-80:]
	}
	res.sig = shapeSig(strings.Join(opLog, ";"))
	return
}

func keysOf(m map[int]bool) []int {
	var ks []int
	for k, v := range m {
		if v {
			ks = append(ks, k)
		}
	}
	sort.Ints(ks)
	return ks
}

// ---------------------------------------------------------------- C13: buffer pool

func runBpmSim(seed uint64, cfg UnitCfg, dir string) (res unitResult) {
	res.stats = map[string]int{}
	simrt.SeedRun(seed, false)
	r := newRng(simrt.Mix(seed, 7))
	var pi *PanicInfo
	var opLog []string
	at := 0
	func() {
		defer catchPanic(&pi)
		path := dir + "/b"
		removeDBFiles(path)
		var dm disk.DiskManager
		if cfg.Kind == "virtual" {
			dm = disk.NewVirtualDiskManagerImpl(path + ".db")
		} else {
			dm = disk.NewDiskManagerImpl(path + ".db")
		}
		defer func() {
			saved := disk.SimRec
			disk.SimRec = nil
			func() {
				defer func() { recover() }()
				dm.ShutDown()
			}()
			disk.SimRec = saved
			removeDBFiles(path)
		}()
		lm := newLogManager(&dm)
		lm.ActivateLogging()
		bpm := buffer.NewBufferPoolManager(uint32(cfg.Frames), dm, lm)
		model := map[int32][]byte{}    // live pages: latest bytes
		pins := map[int32]int{}        // our pins
		held := map[int32]*page.Page{} // page objects we hold pins on
		pinned := func() int {
			n := 0
			for _, c := range pins {
				if c > 0 {
					n++
				}
			}
			return n
		}
		live := func() []int32 {
			var ks []int32
			for k := range model {
				ks = append(ks, k)
			}
			sort.Slice(ks, func(i, j int) bool { return ks[i] < ks[j] })
			return ks
		}
		resident := func(id int32) bool {
			for _, pg := range bpm.GetPages() {
				if pg != nil && int32(pg.GetPageID()) == id {
					return true
				}
			}
			return false
		}
		frameAvailable := func(id int32) bool {
			// a frame is available if the page is resident, or fewer than all frames are pinned
			return pinned() < cfg.Frames
		}
		checkFrames := func() *Violation {
			// (a stale copy of a deallocated-and-reallocated page id may sit in a second frame; that is
			// only a defect if it becomes observable, which the byte comparisons below and at fetch decide)
			// a page we hold a pin on must still be the same frame object with the same bytes
			for id, c := range pins {
				if c <= 0 {
					continue
				}
				pg := held[id]
				if pg == nil {
					continue
				}
				if int32(pg.GetPageID()) != id {
					return unitViol("C13", "pinned-page-evicted", fmt.Sprintf("the frame of pinned page %d now holds page %d", id, pg.GetPageID()), at)
				}
				if !bytes.Equal(pg.Data()[:], model[id]) {
					return unitViol("C13", "pinned-page-changed", fmt.Sprintf("page %d is pinned by the user but its frame holds other bytes", id), at)
				}
				if int(pg.PinCount()) < c {
					return unitViol("C13", "pin-count-lost", fmt.Sprintf("page %d: user holds %d pins, frame says %d", id, c, pg.PinCount()), at)
				}
			}
			return nil
		}
		for at = 0; at < cfg.NOps; at++ {
			ks := live()
			switch k := r.Intn(12); {
			case k <= 2: // new page
				if !frameAvailable(-1) {
					continue
				}
				pg := bpm.NewPage()
				if pg == nil {
					res.viol = unitViol("C13", "frame-lost", fmt.Sprintf("NewPage returned nil although only %d of %d frames are pinned", pinned(), cfg.Frames), at)
					return
				}
				id := int32(pg.GetPageID())
				opLog = append(opLog, fmt.Sprintf("new -> %d", id))
				res.stats["op:new"]++
				if _, isLive := model[id]; isLive {
					res.viol = unitViol("C13", "live-id-reallocated", fmt.Sprintf("NewPage returned id %d which is still in use", id), at)
					return
				}
				b := make([]byte, pageSize)
				for i := 0; i < 64; i++ {
					b[r.Intn(pageSize)] = byte(r.Intn(256))
				}
				pg.WLatch()
				copy(pg.Data()[:], b)
				pg.WUnlatch()
				model[id] = b
				pins[id]++
				held[id] = pg
			case k <= 5: // fetch + verify (+ modify) + keep pinned or unpin
				if len(ks) == 0 {
					continue
				}
				id := ks[r.Intn(len(ks))]
				if !resident(id) && !frameAvailable(id) {
					continue
				}
				pg := bpm.FetchPage(types.PageID(id))
				opLog = append(opLog, fmt.Sprintf("fetch %d", id))
				res.stats["op:fetch"]++
				if pg == nil {
					res.viol = unitViol("C13", "fetch-failed", fmt.Sprintf("FetchPage(%d) returned nil for a live page (%d of %d frames pinned)", id, pinned(), cfg.Frames), at)
					return
				}
				if !bytes.Equal(pg.Data()[:], model[id]) {
					res.viol = unitViol("C13", "stale-bytes", fmt.Sprintf("FetchPage(%d) returned bytes that are not the latest written ones", id), at)
					return
				}
				dirty := false
				if r.Chance(0.6) {
					pg.WLatch()
					for i := 0; i < 16; i++ {
						o := r.Intn(pageSize)
						pg.Data()[o] = byte(r.Intn(256))
					}
					model[id] = append([]byte{}, pg.Data()[:]...)
					pg.WUnlatch()
					dirty = true
					res.stats["modified"]++
				}
				if r.Chance(0.7) {
					bpm.UnpinPage(types.PageID(id), dirty)
				} else {
					pins[id]++
					if h := held[id]; h != nil && h != pg && pins[id] > 1 {
						res.viol = unitViol("C13", "page-in-two-frames", fmt.Sprintf("page %d is pinned by the user in one frame and FetchPage returned another frame", id), at)
						return
					}
					held[id] = pg
					if dirty {
						// remember to unpin dirty later: emulate by an immediate extra unpin/pin pair
						bpm.UnpinPage(types.PageID(id), true)
						p2 := bpm.FetchPage(types.PageID(id))
						if p2 == nil {
							res.viol = unitViol("C13", "fetch-failed", fmt.Sprintf("re-fetch of page %d failed", id), at)
							return
						}
					}
				}
			case k <= 7: // unpin one of our pins
				var c []int32
				for id, n := range pins {
					if n > 0 {
						c = append(c, id)
					}
				}
				if len(c) == 0 {
					continue
				}
				sort.Slice(c, func(i, j int) bool { return c[i] < c[j] })
				id := c[r.Intn(len(c))]
				bpm.UnpinPage(types.PageID(id), true)
				pins[id]--
				if pins[id] == 0 {
					delete(held, id)
				}
				opLog = append(opLog, fmt.Sprintf("unpin %d", id))
				res.stats["op:unpin"]++
			case k == 8: // flush
				if len(ks) == 0 {
					continue
				}
				id := ks[r.Intn(len(ks))]
				bpm.FlushPage(types.PageID(id))
				opLog = append(opLog, fmt.Sprintf("flush %d", id))
				res.stats["op:flush"]++
			case k == 9:
				if r.Chance(0.5) {
					bpm.FlushAllPages()
				} else {
					bpm.FlushAllDirtyPages()
				}
				opLog = append(opLog, "flushall")
				res.stats["op:flushall"]++
			default: // deallocate (also resident and pinned-by-us pages, as the hash join does)
				if len(ks) == 0 {
					continue
				}
				id := ks[r.Intn(len(ks))]
				if pins[id] > 0 {
					// the user gives up its pins first (a page must not be deallocated under a reader)
					for pins[id] > 0 {
						bpm.UnpinPage(types.PageID(id), true)
						pins[id]--
					}
				}
				noWait := r.Chance(0.6)
				bpm.DeallocatePage(types.PageID(id), noWait)
				opLog = append(opLog, fmt.Sprintf("dealloc %d nowait=%v resident=%v", id, noWait, resident(id)))
				res.stats["op:dealloc"]++
				if !noWait {
					// lazy deallocation: the page stays usable until it is evicted; the engine marks
					// it itself through page.SetIsDeallocated in its own callers. We do what the
					// skip list does.
					for _, pg := range bpm.GetPages() {
						if pg != nil && int32(pg.GetPageID()) == id {
							pg.SetIsDeallocated(true)
						}
					}
				}
				delete(model, id)
				delete(pins, id)
				delete(held, id)
			}
			if v := checkFrames(); v != nil {
				res.viol = v
				return
			}
		}
	}()
	if pi != nil && res.viol == nil {
		cls := "bpm-op-panic"
		if strings.Contains(pi.Val, "Victim") {
			cls = "frame-lost"
		}
		res.viol = unitViol("C13", cls, pi.String(), at)
		res.viol.Site = pi.Site
	}
	res.sample = opLog
	if len(res.sample) > 80 {
		res.sample = res.sample[len(res.sample)-80:]
	}
	res.sig = shapeSig(strings.Join(opLog, ";"))
	return
}

// ---------------------------------------------------------------- C16 concurrent part (consim workload "lock")

func (cr *ConRun) runLock() {
	cfg := &cr.Cfg
	simrt.SeedRun(cr.Seed, false)
	wr := newRng(simrt.Mix(cr.Seed, 45))
	nT := 2 + wr.Intn(5)
	nR := 1 + wr.Intn(4)
	opsPer := 5 + wr.Intn(40)
	path := cr.Dir + "/l"
	removeDBFiles(path)
	type lop struct{ kind, rid int }
	progs := make([][]lop, nT)
	for t := range progs {
		for j := 0; j < opsPer; j++ {
			progs[t] = append(progs[t], lop{wr.Intn(10), wr.Intn(nR)})
		}
	}
	var violations []Violation
	addV := func(class, detail string) {
		violations = append(violations, Violation{Property: "C16", Class: class, Detail: detail})
	}
	cr.Res = simrt.Run(cr.simConfig(), func() {
		lmgr := access.NewLockManager(access.STRICT, access.SS2PLMode)
		shi := samehada.NewSamehadaInstance(path, 8)
		logm := shi.GetLogManager()
		logm.DeactivateLogging()
		tm := access.NewTransactionManager(lmgr, logm)
		sh := make([]map[int]bool, nR)
		ex := make([]int, nR)
		rids := make([]*page.RID, nR)
		for i := range sh {
			sh[i] = map[int]bool{}
			ex[i] = -1
			rids[i] = &page.RID{}
			rids[i].Set(types.PageID(7), uint32(i))
		}
		txns := make([]*access.Transaction, nT)
		invariant := func(where string) bool {
			for i := 0; i < nR; i++ {
				xs := 0
				for t := 0; t < nT; t++ {
					if txns[t] != nil && txns[t].IsExclusiveLocked(rids[i]) {
						xs++
					}
				}
				if xs > 1 {
					addV("incompatible-locks-held", fmt.Sprintf("%s: row %d held exclusively by %d transactions", where, i, xs))
					return false
				}
				if xs == 1 {
					for t := 0; t < nT; t++ {
						if txns[t] != nil && txns[t].IsSharedLocked(rids[i]) && !txns[t].IsExclusiveLocked(rids[i]) {
							addV("incompatible-locks-held", fmt.Sprintf("%s: row %d has an exclusive holder and shared holder txn %d", where, i, t))
							return false
						}
					}
				}
			}
			return true
		}
		var tasks []*simrt.Task
		for t := 0; t < nT; t++ {
			t := t
			tasks = append(tasks, simrt.S.Spawn(fmt.Sprintf("locker-%d", t), func() {
				txns[t] = tm.Begin(nil)
				for _, op := range progs[t] {
					if len(violations) > 0 {
						return
					}
					i := op.rid
					others := func() (anyS, anyX bool) {
						for o := range sh[i] {
							if o != t && sh[i][o] {
								anyS = true
							}
						}
						return anyS, ex[i] >= 0 && ex[i] != t
					}
					switch {
					case op.kind <= 3:
						got := lmgr.LockShared(txns[t], rids[i])
						// no decision point since the lock manager's critical section: the shadow table is exact
						_, ox := others()
						if got != !ox {
							addV("grant-decision", fmt.Sprintf("concurrent LockShared(txn %d,row %d)=%v, rules say %v", t, i, got, !ox))
							return
						}
						if got && ex[i] != t {
							sh[i][t] = true
						}
					case op.kind <= 6:
						got := lmgr.LockExclusive(txns[t], rids[i])
						os_, ox := others()
						if got != (!os_ && !ox) {
							addV("grant-decision", fmt.Sprintf("concurrent LockExclusive(txn %d,row %d)=%v, rules say %v (S holders %v, X holder %d)", t, i, got, !os_ && !ox, keysOf(sh[i]), ex[i]))
							return
						}
						if got {
							ex[i] = t
						}
					case op.kind <= 8:
						if !sh[i][t] {
							continue
						}
						got := lmgr.LockUpgrade(txns[t], rids[i])
						os_, ox := others()
						if got != (!os_ && !ox) {
							addV("grant-decision", fmt.Sprintf("concurrent LockUpgrade(txn %d,row %d)=%v, rules say %v", t, i, got, !os_ && !ox))
							return
						}
						if got {
							ex[i] = t
						}
					default:
						// the transaction object keeps its own lock sets after it ended: take it out of
						// the invariant's view before the release starts
						ending := txns[t]
						txns[t] = nil
						tm.Commit(nil, ending)
						for j := 0; j < nR; j++ {
							delete(sh[j], t)
							if ex[j] == t {
								ex[j] = -1
							}
						}
						txns[t] = tm.Begin(nil)
					}
					if !invariant(fmt.Sprintf("after an operation of txn %d", t)) {
						return
					}
				}
				ending := txns[t]
				txns[t] = nil
				tm.Commit(nil, ending)
				for j := 0; j < nR; j++ {
					delete(sh[j], t)
					if ex[j] == t {
						ex[j] = -1
					}
				}
			}))
		}
		for _, tk := range tasks {
			simrt.S.Join(tk)
		}
		shi.Shutdown(samehada.ShutdownPatternRemoveFiles)
	})
	_ = cfg
	cr.stat("steps", int(cr.Res.Steps))
	cr.stat("decisions", int(cr.Res.Decisions))
	cr.stat("preemptions", int(cr.Res.Preemptions))
	cr.faultStats()
	cr.stat("outcome:"+cr.Res.Outcome, 1)
	switch cr.Res.Outcome {
	case "ok":
		cr.Viol = append(cr.Viol, violations...)
	case "deadlock":
		cr.Viol = append(cr.Viol, Violation{Property: "C16", Class: "deadlock", Detail: strings.Join(firstN(cr.Res.Blocked, 10), "; ")})
	case "panic":
		cr.Viol = append(cr.Viol, Violation{Property: "C16", Class: "panic-under-concurrency", Detail: fmt.Sprintf("task %s: %s [%s]", cr.Res.PanicTask, cr.Res.PanicVal, repoFrames(cr.Res.PanicStack, 6)), Site: panicSite(cr.Res.PanicStack)})
	default:
		cr.stat("inconclusive_"+cr.Res.Outcome, 1)
	}
}
