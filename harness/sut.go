package main

// sut.go: thin driver around the real engine, using exported API only.

import (
	"fmt"
	"os"
	"regexp"
	"runtime/debug"
	"sort"
	"strings"
	"time"

	"github.com/ryogrid/SamehadaDB/lib/catalog"
	"github.com/ryogrid/SamehadaDB/lib/common"
	"github.com/ryogrid/SamehadaDB/lib/concurrency"
	"github.com/ryogrid/SamehadaDB/lib/execution/executors"
	"github.com/ryogrid/SamehadaDB/lib/execution/expression"
	"github.com/ryogrid/SamehadaDB/lib/execution/plans"
	"github.com/ryogrid/SamehadaDB/lib/parser"
	"github.com/ryogrid/SamehadaDB/lib/planner"
	"github.com/ryogrid/SamehadaDB/lib/planner/optimizer"
	"github.com/ryogrid/SamehadaDB/lib/samehada"
	"github.com/ryogrid/SamehadaDB/lib/samehada/samehada_util"
	"github.com/ryogrid/SamehadaDB/lib/storage/access"
	"github.com/ryogrid/SamehadaDB/lib/storage/disk"
	"github.com/ryogrid/SamehadaDB/lib/storage/index/index_constants"
	"github.com/ryogrid/SamehadaDB/lib/storage/table/column"
	"github.com/ryogrid/SamehadaDB/lib/storage/table/schema"
	"github.com/ryogrid/SamehadaDB/lib/storage/tuple"
	"github.com/ryogrid/SamehadaDB/lib/types"
	"verif/simrt"
)

func init() {
	// file-backed disk manager (the in-memory one drops log writes)
	common.TempSuppressOnMemStorage = true
}

// Sites of the engine's own goroutines (as named by the rewriter).
const (
	siteCheckpoint = "concurrency/checkpoint_manager.go"
	siteStats      = "concurrency/statistics_updater.go"
	siteReqMgr     = "samehada/request_manager.go"
)

// backgroundOff: checkpoint and statistics threads are never started (sequential harnesses).
func backgroundOff() {
	simrt.SetGoPolicy(true, map[string]bool{siteCheckpoint: false, siteStats: false})
}

func backgroundOn() { simrt.SetGoPolicy(true, nil) }

type SUT struct {
	Path   string // without extension
	Frames int
	DB     *samehada.SamehadaDB
	Shi    *samehada.SamehadaInstance
	Cat    *catalog.Catalog
	Eng    *executors.ExecutionEngine
	closed bool
	// Dead: the engine panicked under this instance; latches may be left locked, so nothing more is run on it
	Dead bool
}

var errDead = fmt.Errorf("engine instance is dead after a panic")

func (s *SUT) catch(pi **PanicInfo) {
	if r := recover(); r != nil {
		s.Dead = true
		func() {
			defer catchPanic(pi)
			panic(r)
		}()
	}
}

type PanicInfo struct {
	Val   string
	Stack string
	Site  string // innermost repository function on the stack
}

func (p *PanicInfo) String() string {
	if p == nil {
		return ""
	}
	return fmt.Sprintf("panic %q at %s [%s]", p.Val, p.Site, repoFrames(p.Stack, 6))
}

// repoFrames lists the innermost n repository functions of a stack trace.
func repoFrames(stack string, n int) string {
	m := reFrame.FindAllStringSubmatch(stack, -1)
	var out []string
	for _, x := range m {
		f := strings.TrimPrefix(x[1], "github.com/ryogrid/SamehadaDB/lib/")
		f = strings.TrimPrefix(f, "github.com/ryogrid/")
		if len(out) > 0 && out[len(out)-1] == f {
			continue
		}
		out = append(out, f)
		if len(out) >= n {
			break
		}
	}
	return strings.Join(out, " < ")
}

var reFrame = regexp.MustCompile(`(?m)^(github\.com/ryogrid/[^\s(]+(?:\([^)]*\))?[^\s(]*)\(`)

// panicSite extracts the innermost repository function from a stack trace.
func panicSite(stack string) string {
	m := reFrame.FindAllStringSubmatch(stack, -1)
	for _, x := range m {
		f := x[1]
		f = strings.TrimPrefix(f, "github.com/ryogrid/SamehadaDB/lib/")
		f = strings.TrimPrefix(f, "github.com/ryogrid/")
		return f
	}
	return "?"
}

func catchPanic(pi **PanicInfo) {
	if r := recover(); r != nil {
		if c, ok := r.(disk.SimCrash); ok {
			*pi = &PanicInfo{Val: fmt.Sprintf("SimCrash@%d", c.At), Site: "simcrash"}
			return
		}
		if _, ok := r.(disk.SimBudgetExceeded); ok {
			st := string(debug.Stack())
			*pi = &PanicInfo{Val: "disk-call budget exceeded (no progress)", Stack: st, Site: "budget:" + panicSite(st)}
			return
		}
		st := string(debug.Stack())
		*pi = &PanicInfo{Val: fmt.Sprint(r), Stack: st, Site: panicSite(st)}
	}
}

// OpenSUT starts the engine on path (.db/.log): fresh database if the files do not exist,
// otherwise the engine's own recovery runs.
func OpenSUT(path string, frames int) (s *SUT, pi *PanicInfo) {
	defer catchPanic(&pi)
	db := samehada.NewSamehadaDB(path, frames*4)
	s = &SUT{Path: path, Frames: frames, DB: db, Shi: db.GetSamehadaInstance(), Cat: db.GetCatalogForTesting(), Eng: &executors.ExecutionEngine{}}
	return s, nil
}

// Crash stops the engine without flushing anything: background flags off, files closed.
func (s *SUT) Crash() (pi *PanicInfo) {
	if s == nil || s.closed || s.Dead {
		return nil
	}
	s.closed = true
	defer catchPanic(&pi)
	saved := disk.SimRec
	disk.SimRec = nil
	defer func() { disk.SimRec = saved }()
	s.DB.ShutdownForTescase()
	return nil
}

// Shutdown is the clean stop.
func (s *SUT) Shutdown() (pi *PanicInfo) {
	if s == nil || s.closed {
		return nil
	}
	if s.Dead {
		return &PanicInfo{Val: "dead instance", Site: "dead"}
	}
	s.closed = true
	defer catchPanic(&pi)
	s.DB.Shutdown()
	return nil
}

type ExecResult struct {
	Rows    [][]any
	Err     error
	Aborted bool
	Panic   *PanicInfo
	Plan    string
}

func (r ExecResult) OK() bool { return r.Err == nil && !r.Aborted && r.Panic == nil }

type STxn struct {
	s    *SUT
	Txn  *access.Transaction
	Done bool
}

func (s *SUT) Begin() (t *STxn, pi *PanicInfo) {
	if s.Dead {
		return nil, &PanicInfo{Val: "dead instance", Site: "dead"}
	}
	defer s.catch(&pi)
	txn := s.Shi.GetTransactionManager().Begin(nil)
	return &STxn{s: s, Txn: txn}, nil
}

func (t *STxn) ID() int64 { return int64(t.Txn.GetTransactionID()) }

func convRows(vals [][]*types.Value) [][]any {
	ifs := samehada_util.ConvValueListToIFs(vals)
	out := make([][]any, len(ifs))
	for i, r := range ifs {
		out[i] = make([]any, len(r))
		for j, v := range r {
			out[i][j] = v
		}
	}
	return out
}

func planString(p plans.Plan) (s string) {
	defer func() {
		if r := recover(); r != nil {
			s = "?"
		}
	}()
	if p == nil {
		return "nil"
	}
	return shapeOf(p)
}

func shapeOf(p plans.Plan) string {
	name := fmt.Sprintf("%T", p)
	name = strings.TrimPrefix(name, "*plans.")
	name = strings.TrimSuffix(name, "PlanNode")
	if rs, ok := p.(*plans.RangeScanWithIndexPlanNode); ok {
		name += fmt.Sprintf("[col%d]", rs.GetColIdx())
	}
	ch := p.GetChildren()
	if len(ch) == 0 {
		return name
	}
	var cs []string
	for _, c := range ch {
		if c != nil {
			cs = append(cs, shapeOf(c))
		}
	}
	return name + "(" + strings.Join(cs, ",") + ")"
}

// Exec runs one statement inside the transaction, the way SamehadaDB.ExecuteSQLRetValues does
// (parser -> RewriteQueryInfo -> SimplePlanner -> ExecutionEngine), without committing.
func (t *STxn) Exec(sql string) (res ExecResult) {
	s := t.s
	if s.Dead {
		res.Err = errDead
		return
	}
	defer s.catch(&res.Panic)
	qi, err := parser.ProcessSQLStr(&sql)
	if err != nil {
		res.Err = err
		return
	}
	qi, err = optimizer.RewriteQueryInfo(s.Cat, qi)
	if err != nil {
		res.Err = err
		return
	}
	err, plan := planner.NewSimplePlanner(s.Cat, s.Shi.GetBufferPoolManager()).MakePlan(qi, t.Txn)
	if err != nil {
		res.Err = err
		return
	}
	if plan == nil {
		if *qi.QueryType == parser.CreateTable {
			return
		}
		res.Err = samehada.PlanCreationErr
		return
	}
	res.Plan = planString(plan)
	ctx := executors.NewExecutorContext(s.Cat, s.Shi.GetBufferPoolManager(), t.Txn)
	result := s.Eng.Execute(plan, ctx)
	if t.Txn.GetState() == access.ABORTED {
		res.Aborted = true
		return
	}
	outSchema := plan.OutputSchema()
	if outSchema == nil {
		return
	}
	res.Rows = convRows(samehada_util.ConvTupleListToValues(outSchema, result))
	return
}

func (t *STxn) Commit() (pi *PanicInfo) {
	if t.s.Dead {
		return &PanicInfo{Val: "dead instance", Site: "dead"}
	}
	defer t.s.catch(&pi)
	t.Done = true
	t.s.Shi.GetTransactionManager().Commit(t.s.Cat, t.Txn)
	return nil
}

func (t *STxn) Abort() (pi *PanicInfo) {
	if t.s.Dead {
		return &PanicInfo{Val: "dead instance", Site: "dead"}
	}
	defer t.s.catch(&pi)
	t.Done = true
	t.s.Shi.GetTransactionManager().Abort(t.s.Cat, t.Txn)
	return nil
}

// AutoSQL runs a statement through the public ExecuteSQL entry point (request manager etc).
func (s *SUT) AutoSQL(sql string) (res ExecResult) {
	if s.Dead {
		res.Err = errDead
		return
	}
	defer s.catch(&res.Panic)
	var err error
	var rows [][]interface{}
	if simrt.Controlled() {
		err, rows = s.DB.ExecuteSQL(sql)
	} else {
		// the statement runs on one of the engine's own worker goroutines; if that panics the
		// caller would wait for its reply forever (in production the process dies)
		type reply struct {
			err  error
			rows [][]interface{}
		}
		done := make(chan reply, 1)
		go func() {
			e, r := s.DB.ExecuteSQL(sql)
			done <- reply{e, r}
		}()
		spawns0 := simrt.PassthroughSpawns()
	wait:
		for {
			select {
			case r := <-done:
				err, rows = r.err, r.rows
				break wait
			case gp := <-simrt.GoPanicCh:
				res.Panic = &PanicInfo{Val: gp.Val, Stack: gp.Stack, Site: panicSite(gp.Stack)}
				s.Dead = true
				return
			case <-time.After(50 * time.Millisecond):
				// a single driver has no competitor: a statement that is aborted and re-queued again
				// and again will never finish (each round starts a worker goroutine). Counted, not
				// timed: the run is handed to the hang reporter without waiting for the watchdog.
				if n := simrt.PassthroughSpawns() - spawns0; n > retryStormLimit {
					reportRetryStorm(sql, n)
				}
			}
		}
	}
	res.Err = err
	if rows != nil {
		res.Rows = make([][]any, len(rows))
		for i, r := range rows {
			res.Rows[i] = append([]any{}, r...)
		}
	}
	return
}

// ScanHeap reads a table by a full heap scan (sequential-scan executor without predicate),
// inside its own transaction which is committed afterwards.
func (s *SUT) ScanHeap(table string) (rows [][]any, tids []tuple.Tuple, res ExecResult) {
	if s.Dead {
		res.Err = errDead
		return
	}
	defer s.catch(&res.Panic)
	tm := s.Cat.GetTableByName(table)
	if tm == nil {
		res.Err = fmt.Errorf("table %s not in catalog", table)
		return
	}
	txn := s.Shi.GetTransactionManager().Begin(nil)
	plan := plans.NewSeqScanPlanNode(s.Cat, tm.Schema(), nil, tm.OID())
	ctx := executors.NewExecutorContext(s.Cat, s.Shi.GetBufferPoolManager(), txn)
	result := s.Eng.Execute(plan, ctx)
	if txn.GetState() == access.ABORTED {
		s.Shi.GetTransactionManager().Abort(s.Cat, txn)
		res.Aborted = true
		return
	}
	rows = convRows(samehada_util.ConvTupleListToValues(tm.Schema(), result))
	s.Shi.GetTransactionManager().Commit(s.Cat, txn)
	return
}

// RefreshStats runs one statistics pass (what the 10 s background thread does).
func (s *SUT) RefreshStats() (pi *PanicInfo) {
	if s.Dead {
		return &PanicInfo{Val: "dead instance", Site: "dead"}
	}
	defer s.catch(&pi)
	u := concurrency.NewStatisticsUpdater(s.Shi.GetTransactionManager(), s.Cat)
	u.UpdateAllTablesStatistics()
	return nil
}

func (s *SUT) Checkpoint() (pi *PanicInfo) {
	if s.Dead {
		return &PanicInfo{Val: "dead instance", Site: "dead"}
	}
	defer s.catch(&pi)
	s.DB.ForceCheckpointingForTestcase()
	return nil
}

// PinVector returns (pageID -> pin count) for resident pages with pin count > 0.
func (s *SUT) PinVector() map[int32]int32 {
	out := map[int32]int32{}
	for _, pg := range s.Shi.GetBufferPoolManager().GetPages() {
		if pg != nil && pg.PinCount() != 0 {
			out[int32(pg.GetPageID())] = pg.PinCount()
		}
	}
	return out
}

func pinDiff(a, b map[int32]int32) string {
	var ks []int32
	seen := map[int32]bool{}
	for k := range a {
		if !seen[k] {
			ks = append(ks, k)
			seen[k] = true
		}
	}
	for k := range b {
		if !seen[k] {
			ks = append(ks, k)
			seen[k] = true
		}
	}
	sort.Slice(ks, func(i, j int) bool { return ks[i] < ks[j] })
	var out []string
	for _, k := range ks {
		// the property speaks about frames that become pinned: a page that was pinned before (index
		// header / start node pages are pinned for good by design) and still is does not count
		if a[k] == 0 && b[k] != 0 {
			out = append(out, fmt.Sprintf("page %d: pin count %d->%d", k, a[k], b[k]))
		}
	}
	return strings.Join(out, ", ")
}

// pinGrowth counts pages that were pinned before and whose pin count grew (reported as a counter only).
func pinGrowth(a, b map[int32]int32) int {
	n := 0
	for k, v := range b {
		if a[k] > 0 && v > a[k] {
			n++
		}
	}
	return n
}

func removeDBFiles(path string) {
	os.Remove(path + ".db")
	os.Remove(path + ".log")
}

var rePlanCol = regexp.MustCompile(`\[col\d+\]`)

// planKind strips the index column from a plan shape (for statistics).
func planKind(shape string) string { return rePlanCol.ReplaceAllString(shape, "") }

// TxnSQL runs one statement in its own explicit transaction (begin / exec / commit-or-abort) and
// reports the plan that was used.
func (s *SUT) TxnSQL(sql string) (res ExecResult) {
	t, pi := s.Begin()
	if pi != nil {
		res.Panic = pi
		return
	}
	res = t.Exec(sql)
	if res.Panic != nil {
		return
	}
	if res.Aborted || res.Err != nil {
		if pi := t.Abort(); pi != nil {
			res.Panic = pi
		}
		return
	}
	if pi := t.Commit(); pi != nil {
		res.Panic = pi
	}
	return
}

// PlanInsert stores rows through the plan-level API (InsertPlanNode), for values that the SQL
// literal forms cannot express (NULL, float specials, boundary integers).
func (t *STxn) PlanInsert(st *Stmt, mt *MTable) (res ExecResult) {
	s := t.s
	if s.Dead {
		res.Err = errDead
		return
	}
	defer s.catch(&res.Panic)
	tm := s.Cat.GetTableByName(st.Table)
	if tm == nil {
		res.Err = fmt.Errorf("no table %s", st.Table)
		return
	}
	var raw [][]types.Value
	for _, r := range st.Rows {
		vals := make([]types.Value, len(mt.Cols))
		for i := range mt.Cols {
			vals[i] = typedNull(mt.Cols[i].Type)
		}
		for i, cn := range st.Cols {
			ci := mt.ColIdx(cn)
			if r[i] == nil {
				vals[ci] = typedNull(mt.Cols[ci].Type)
			} else {
				vals[ci] = types.NewValue(r[i])
			}
		}
		raw = append(raw, vals)
	}
	plan := plans.NewInsertPlanNode(raw, tm.OID())
	res.Plan = "Insert(plan-level)"
	ctx := executors.NewExecutorContext(s.Cat, s.Shi.GetBufferPoolManager(), t.Txn)
	s.Eng.Execute(plan, ctx)
	if t.Txn.GetState() == access.ABORTED {
		res.Aborted = true
	}
	return
}

func typedNull(t ColType) types.Value {
	var v types.Value
	switch t {
	case TInt:
		v = types.NewInteger(0)
	case TFloat:
		v = types.NewFloat(0)
	case TVarchar:
		v = types.NewVarchar("")
	case TBool:
		v = types.NewBoolean(false)
	}
	return *v.SetNull()
}

// PointScan runs a plan-level index point scan (PointScanWithIndexPlanNode is not produced by the
// SQL planner, but it is part of the execution engine the properties anchor on): rows of table
// whose column col equals val, all columns.
func (t *STxn) PointScan(table string, col string, val any) (res ExecResult) {
	s := t.s
	if s.Dead {
		res.Err = errDead
		return
	}
	defer s.catch(&res.Panic)
	tm := s.Cat.GetTableByName(table)
	if tm == nil {
		res.Err = fmt.Errorf("no table %s", table)
		return
	}
	sc := tm.Schema()
	ci := sc.GetColIndex(col)
	v := types.NewValue(val)
	pred := expression.NewComparison(expression.NewColumnValue(0, ci, v.ValueType()), expression.NewConstantValue(v, v.ValueType()), expression.Equal, types.Boolean)
	plan := plans.NewPointScanWithIndexPlanNode(s.Cat, sc, pred.(*expression.Comparison), tm.OID())
	res.Plan = "PointScanWithIndex(plan-level)"
	ctx := executors.NewExecutorContext(s.Cat, s.Shi.GetBufferPoolManager(), t.Txn)
	result := s.Eng.Execute(plan, ctx)
	if t.Txn.GetState() == access.ABORTED {
		res.Aborted = true
		return
	}
	res.Rows = convRows(samehada_util.ConvTupleListToValues(sc, result))
	return
}

// CreateTableAPI creates a table through the catalog (what the SQL front end does for CREATE TABLE,
// which always asks for skip list indexes) with the index kind per column given in ts.IdxKinds:
// "" = skip list, "btree", "uniq" (unique skip list), "hash" (linear probe hash table).
func (s *SUT) CreateTableAPI(ts *TableSpec) (res ExecResult) {
	if s.Dead {
		res.Err = errDead
		return
	}
	defer s.catch(&res.Panic)
	if s.Cat.GetTableByName(ts.Name) != nil {
		res.Err = fmt.Errorf("table %s exists", ts.Name)
		return
	}
	var cols []*column.Column
	for i, c := range ts.Cols {
		kind := index_constants.IndexKindSkipList
		if i < len(ts.IdxKinds) {
			switch ts.IdxKinds[i] {
			case "btree":
				kind = index_constants.IndexKindBtree
			case "uniq":
				kind = index_constants.IndexKindUniqSkipList
			case "hash":
				kind = index_constants.IndexKindHash
			}
		}
		ct := map[ColType]types.TypeID{TInt: types.Integer, TFloat: types.Float, TVarchar: types.Varchar, TBool: types.Boolean}[c.Type]
		cols = append(cols, column.NewColumn(c.Name, ct, true, kind, types.PageID(-1), nil))
	}
	tm := s.Shi.GetTransactionManager()
	txn := tm.Begin(nil)
	s.Cat.CreateTable(ts.Name, schema.NewSchema(cols), txn)
	tm.Commit(s.Cat, txn)
	s.WarmIndexes()
	return
}

// WarmIndexes touches every B-tree index once. The embedded B-tree pins its two bookkeeping pages
// when it is first used and keeps them pinned for good - the same kind of permanent pins a skip
// list takes when it is created. Taking them here (after CREATE and after every restart) keeps them
// out of the per-statement pin accounting (M-PIN), which is about pins a statement leaves behind.
func (s *SUT) WarmIndexes() {
	if s == nil || s.Dead {
		return
	}
	var pi *PanicInfo
	defer s.catch(&pi)
	tm := s.Shi.GetTransactionManager()
	txn := tm.Begin(nil)
	defer tm.Commit(s.Cat, txn)
	for _, t := range s.Cat.GetAllTables() {
		sc := t.Schema()
		for ci := uint32(0); ci < sc.GetColumnCount(); ci++ {
			col := sc.GetColumn(ci)
			if !col.HasIndex() || col.IndexKind() != index_constants.IndexKindBtree {
				continue
			}
			idx := t.GetIndex(int(ci))
			if idx == nil {
				continue
			}
			var v types.Value
			switch col.GetType() {
			case types.Integer:
				v = types.NewInteger(0)
			case types.Float:
				v = types.NewFloat(0)
			case types.Varchar:
				v = types.NewVarchar("")
			default:
				continue
			}
			idx.ScanKey(tuple.GenTupleForIndexSearch(sc, ci, &v), txn)
		}
	}
}

// indexKindName: the kind the catalog reports for a column (for the catalog identity check).
func indexKindName(k index_constants.IndexKind) string {
	switch k {
	case index_constants.IndexKindBtree:
		return "btree"
	case index_constants.IndexKindUniqSkipList:
		return "uniq"
	case index_constants.IndexKindSkipList:
		return ""
	case index_constants.IndexKindHash:
		return "hash"
	}
	return "invalid"
}
