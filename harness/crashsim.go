package main

// crashsim.go: single-driver simulation with the I/O trace recorded at the DiskManager seam and
// crash images cut from every prefix of it (DESIGN.md section 4: C01, C02, C08, C10, C20).

import (
	"encoding/binary"
	"fmt"
	"os"
	"sort"
	"strings"

	"github.com/ryogrid/SamehadaDB/lib/storage/disk"
	"github.com/ryogrid/SamehadaDB/lib/types"
	"verif/simrt"
)

// ---------------------------------------------------------------- configuration (swarm)

type TableSpec struct {
	Name string `json:"name"`
	Cols []Col  `json:"cols"`
	Wide int    `json:"wide"` // typical varchar payload length
	// index kind per column: "" = skip list (what SQL DDL creates), "btree", "uniq"; when set the
	// table is created through the catalog API instead of CREATE TABLE
	IdxKinds []string `json:"idx_kinds,omitempty"`
}

type CrashCfg struct {
	Frames              int         `json:"frames"`
	Tables              []TableSpec `json:"tables"`
	InitRows            int         `json:"init_rows"`
	NOps                int         `json:"n_ops"`
	Slots               int         `json:"slots"`
	MapPermute          bool        `json:"map_permute"`
	PAbort              float64     `json:"p_abort"`
	PCheckpt            float64     `json:"p_checkpoint"`
	PAuto               float64     `json:"p_auto"`
	Torn                bool        `json:"torn"` // torn variants of the last write
	TornPages           bool        `json:"torn_pages"`
	Nested              int         `json:"nested"` // depth of crash-inside-recovery exploration
	MaxImages           int         `json:"max_images"`
	PostWork            bool        `json:"post_work"`
	BigTxn              bool        `json:"big_txn"`
	Pressure            bool        `json:"pressure"`
	Churn               bool        `json:"churn,omitempty"` // Pressure variant: wide range deletes empty whole skip-list nodes, their pages go to the reusable id list and come back through NewPage while the pool is full of dirty pages
	CleanRestartInSetup bool        `json:"clean_restart_in_setup"`
	BulkLoser           int         `json:"bulk_loser,omitempty"`  // a transaction that inserts this many wide rows and never commits, followed by a committed bulk insert of another one (minimum pool)
	HotUpdates          int         `json:"hot_updates,omitempty"` // BigTxn variant: this many in-place updates of one or two rows in one transaction
	LateTables          []TableSpec `json:"late_tables,omitempty"` // created by ddl ops in the middle of the history
	PDDL                float64     `json:"p_ddl,omitempty"`
}

type rng struct{ p simrt.PRNG }

func newRng(seed uint64) *rng        { return &rng{simrt.NewPRNG(seed)} }
func (r *rng) Intn(n int) int        { return r.p.Intn(n) }
func (r *rng) Float() float64        { return r.p.Float64() }
func (r *rng) Chance(p float64) bool { return r.p.Float64() < p }
func (r *rng) Pick(xs []int) int     { return xs[r.p.Intn(len(xs))] }
func (r *rng) permN(n int) []int {
	p := make([]int, n)
	for i := range p {
		p[i] = i
	}
	for i := n - 1; i > 0; i-- {
		j := r.p.Intn(i + 1)
		p[i], p[j] = p[j], p[i]
	}
	return p
}

func (r *rng) Str(n int) string {
	const al = "abcdefghijklmnopqrstuvwxyzABCDEFGHIJKLMNOPQRSTUVWXYZ0123456789"
	b := make([]byte, n)
	for i := range b {
		b[i] = al[r.p.Intn(len(al))]
	}
	return string(b)
}

func genCrashCfg(r *rng, tier string, prop string) CrashCfg {
	c := CrashCfg{}
	nt := 1 + r.Intn(2)
	if r.Chance(0.15) {
		nt = 3
	}
	for i := 0; i < nt; i++ {
		ts := TableSpec{Name: fmt.Sprintf("t%d", i)}
		ts.Cols = []Col{{"k", TInt}, {"v", TInt}}
		if r.Chance(0.8) {
			ts.Cols = append(ts.Cols, Col{"s", TVarchar})
		}
		switch r.Intn(4) {
		case 0:
			ts.Wide = 8
		case 1:
			ts.Wide = 60
		case 2:
			ts.Wide = 200 // (VARCHAR payloads above ~250 bytes are out of the index key range)
		default:
			ts.Wide = 30
		}
		c.Tables = append(c.Tables, ts)
	}
	c.Frames = []int{0, 0, 2, 4, 8, 16, 32, 64}[r.Intn(8)] // 0 => minimum feasible, filled in by the driver
	c.InitRows = []int{0, 3, 8, 20, 40}[r.Intn(5)]
	c.NOps = 5 + r.Intn(30)
	if tier == "thorough" && r.Chance(0.3) {
		c.NOps += r.Intn(40)
	}
	c.Slots = 1 + r.Intn(3)
	c.MapPermute = r.Chance(0.5)
	c.PAbort = []float64{0, 0.1, 0.25, 0.5}[r.Intn(4)]
	c.PCheckpt = []float64{0, 0.03, 0.1}[r.Intn(3)]
	c.PAuto = []float64{0, 0.1, 0.3}[r.Intn(3)]
	c.Torn = r.Chance(0.5)
	c.TornPages = c.Torn && r.Chance(0.4)
	c.PostWork = r.Chance(0.5)
	c.MaxImages = 400
	c.CleanRestartInSetup = r.Chance(0.25)
	if r.Chance(0.2+map[string]float64{"C08": 0.2}[prop]) || os.Getenv("VERIF_FORCE_CHURN") != "" {
		// eviction pressure: one table whose heap is larger than the frames that are not pinned for
		// good, minimum pool, long transactions of scan-path statements: dirty pages of the open
		// transaction are evicted in the middle of statements (steal)
		c.Pressure = true
		c.Tables = c.Tables[:1]
		c.Tables[0].Cols = []Col{{"k", TInt}, {"v", TInt}, {"s", TVarchar}}
		c.Tables[0].Wide = 200
		c.Frames = 0
		c.InitRows = 120 + r.Intn(100)
		c.Slots = 1 + r.Intn(2) // (two slots: a long-lived loser whose pages lie in the middle of what the others filled later)
		c.PAuto = 0
		c.NOps = 12 + r.Intn(20)
		c.CleanRestartInSetup = false
		c.MaxImages = 80
		c.Churn = r.Chance(0.5+map[string]float64{"C08": 0.25}[prop]) || os.Getenv("VERIF_FORCE_CHURN") != ""
		if c.Churn {
			c.NOps = 70 + r.Intn(50) // refill: enough inserts for the indexes to split nodes again
		}
	}
	if (!c.Pressure && r.Chance(map[string]float64{"thorough": 0.04}[tier]+0.015+map[string]float64{"C08": 0.06}[prop])) || os.Getenv("VERIF_FORCE_BIGTXN") != "" {
		c.Pressure = false
		// log buffer wrap: one transaction writes more log than the 528 KB log buffer holds without any
		// flush in between (pool large enough that nothing is evicted): the buffer is swapped and written
		// in the middle of a statement, crash points and torn tails fall inside that write
		c.BigTxn = true
		c.Tables = c.Tables[:1]
		c.Tables[0].Cols = []Col{{"k", TInt}, {"v", TInt}, {"s", TVarchar}}
		c.Tables[0].Wide = 200
		c.Frames = 640
		c.InitRows = 1300 + r.Intn(500)
		if r.Chance(0.4) {
			// ... or a minimum pool and a hot row: the same one or two wide rows are updated in place more
			// than a thousand times (the log buffer fills up while only their page is dirty), then a full
			// scan evicts that page before the commit
			c.Frames = 0
			c.InitRows = 200 + r.Intn(200)
			c.HotUpdates = 1300 + r.Intn(300) // upper bound: the updates stop at the log buffer overflow
		}
		c.Slots = 1
		c.PAuto = 0
		c.PCheckpt = 0
		c.NOps = 4 + r.Intn(3)
		if c.HotUpdates > 0 {
			c.NOps = c.HotUpdates + 4
		}
		c.CleanRestartInSetup = false
		c.MaxImages = 40
		c.TornPages = false
	}
	if (!c.Pressure && !c.BigTxn && r.Chance(0.04)) || os.Getenv("VERIF_FORCE_BULKLOSER") != "" {
		c.Pressure, c.BigTxn, c.HotUpdates = false, false, 0
		// bulk loser: recovery itself runs under eviction pressure - the loser's pages lie in the middle of
		// what redo walks through, are evicted after redo, re-read for undo and evicted again
		c.BulkLoser = 250 + r.Intn(250)
		c.Tables = c.Tables[:1]
		c.Tables[0].Cols = []Col{{"k", TInt}, {"v", TInt}, {"s", TVarchar}}
		c.Tables[0].Wide = 200
		c.Frames = 0
		c.InitRows = 10 + r.Intn(30)
		c.Slots = 2
		c.NOps = c.BulkLoser + 150 + r.Intn(150) + 4
		c.PAuto, c.PCheckpt = 0, 0
		c.CleanRestartInSetup = false
		c.MaxImages = 12
		c.TornPages = false
	}
	// tables created in the middle of the history (crash points inside and around CREATE TABLE): the
	// bulk of the C10 runs, a fraction of the others
	if !c.Pressure && !c.BigTxn && c.BulkLoser == 0 && (prop == "C10" || r.Chance(0.15)) {
		nl := 1 + r.Intn(3)
		for i := 0; i < nl; i++ {
			ts := TableSpec{Name: fmt.Sprintf([]string{"u%d", "u%d", "U%d", "Ux%d"}[r.Intn(4)], i), Cols: []Col{{"k", TInt}, {"v", TInt}}, Wide: []int{8, 30, 120}[r.Intn(3)]}
			if r.Chance(0.6) {
				ts.Cols = append(ts.Cols, Col{"s", TVarchar}) // (the statement generator knows k, v and s)
			}
			c.LateTables = append(c.LateTables, ts)
		}
		c.PDDL = []float64{0.1, 0.25, 0.5}[r.Intn(3)]
		if prop == "C10" {
			c.PAuto = []float64{0.1, 0.3, 0.5}[r.Intn(3)]
			if r.Chance(0.3) {
				c.Tables = c.Tables[:1]
			}
		}
	}
	return c
}

// ---------------------------------------------------------------- workload generator

type keyGen struct {
	next map[string]int32
}

// genOp produces the next operation from the current model state.
func genOp(r *rng, c *CrashCfg, e *Exec, kg *keyGen) Op {
	if c.BulkLoser > 0 {
		ins := func(t int) Op {
			ts := &c.Tables[0]
			return Op{T: t, Kind: "stmt", Stmt: &Stmt{Kind: "insert", Table: ts.Name, Cols: colNames(ts), Rows: [][]any{genRow(r, ts, kg.fresh(ts.Name))}}}
		}
		s0, s1 := e.Slots[0], e.Slots[1]
		switch {
		case s0 == nil && e.Aborts == 0 && len(e.Outcomes) == 0:
			return Op{T: 0, Kind: "begin"}
		case s0 != nil && s0.mt.Stmts < c.BulkLoser:
			return ins(0)
		case s1 == nil:
			return Op{T: 1, Kind: "begin"}
		case s1.mt.Stmts < c.NOps-c.BulkLoser-4:
			return ins(1)
		default:
			return Op{T: 1, Kind: "commit"}
		}
	}
	// pick a slot
	t := r.Intn(c.Slots)
	sl := e.Slots[t]
	if sl == nil {
		if e.open() == 0 {
			if r.Chance(c.PCheckpt) {
				return Op{Kind: "checkpoint"}
			}
			if c.PDDL > 0 && r.Chance(c.PDDL) {
				for i := range e.Late {
					if e.M.Table(e.Late[i].Name) == nil {
						return Op{Kind: "ddl", T: i}
					}
				}
			}
			if r.Chance(c.PAuto) {
				return Op{Kind: "auto", Stmt: genStmt(r, c, e, nil, kg)}
			}
		}
		return Op{T: t, Kind: "begin"}
	}
	// open transaction: statement, commit or abort
	n := sl.mt.Writes
	pEnd := 0.25
	if n == 0 {
		pEnd = 0.08
	}
	if c.Pressure {
		pEnd = 0.1
	}
	if c.BigTxn && c.HotUpdates > 0 {
		all := &Pred{Logic: "OR", L: &Pred{Col: "k", Op: ">=", Val: int32(0)}, R: &Pred{Col: "k", Op: "<", Val: int32(0)}}
		// the interesting moment is the update whose log record did not fit the log buffer any more (the
		// buffer is written out in the middle of the append): stop the updates right there, so that this
		// record is the last change of its page before the scan evicts it
		wrapped := false
		if rec := disk.SimRec; rec != nil && sl.rec != nil {
			for i := sl.rec.BeginPos; i < len(rec.Events); i++ {
				if rec.Events[i].Kind == 'L' && len(rec.Events[i].Data) > 400_000 {
					wrapped = true
				}
			}
		}
		if wrapped && sl.mt.Stmts < c.HotUpdates {
			sl.mt.Stmts = c.HotUpdates
		}
		switch {
		case sl.mt.Stmts < c.HotUpdates:
			hot := int32(1 + r.Intn(2))
			return Op{T: t, Kind: "stmt", Stmt: &Stmt{Kind: "update", Table: c.Tables[0].Name, Set: []SetItem{{"v", int32(7000 + r.Intn(1000))}}, Where: &Pred{Col: "k", Op: "=", Val: hot}}}
		case sl.mt.Stmts == c.HotUpdates:
			return Op{T: t, Kind: "stmt", Stmt: &Stmt{Kind: "select", Table: c.Tables[0].Name, Cols: colNames(&c.Tables[0]), Where: all}}
		default:
			pEnd = 1
		}
	} else if c.BigTxn {
		if n >= 1 && r.Chance(0.6) {
			pEnd = 1
		} else {
			// touch every row: old and new image of ~230-byte rows, > 528 KB of log per statement
			all := &Pred{Logic: "OR", L: &Pred{Col: "k", Op: ">=", Val: int32(0)}, R: &Pred{Col: "k", Op: "<", Val: int32(0)}}
			return Op{T: t, Kind: "stmt", Stmt: &Stmt{Kind: "update", Table: c.Tables[0].Name, Set: []SetItem{{"v", int32(5000 + r.Intn(1000))}}, Where: all}}
		}
	}
	if r.Chance(pEnd) {
		if r.Chance(c.PAbort) {
			return Op{T: t, Kind: "abort"}
		}
		return Op{T: t, Kind: "commit"}
	}
	return Op{T: t, Kind: "stmt", Stmt: genStmt(r, c, e, sl.mt, kg)}
}

func (kg *keyGen) fresh(table string) int32 {
	if kg.next == nil {
		kg.next = map[string]int32{}
	}
	kg.next[table]++
	return kg.next[table]
}

func randVarchar(r *rng, wide int) string {
	n := wide/2 + r.Intn(wide+1)
	if n < 1 {
		n = 1
	}
	return r.Str(n)
}

func genRow(r *rng, ts *TableSpec, k int32) []any {
	row := []any{k, int32(r.Intn(1000))}
	if len(ts.Cols) > 2 {
		row = append(row, randVarchar(r, ts.Wide))
	}
	return row
}

func colNames(ts *TableSpec) []string {
	var out []string
	for _, c := range ts.Cols {
		out = append(out, c.Name)
	}
	return out
}

// visibleKeys: keys the transaction can see (committed + own), for choosing targets.
func visibleKeys(e *Exec, mt *MTxn, table string) []int32 {
	t := e.M.Table(table)
	var ks []int32
	if mt == nil {
		for _, r := range t.Rows {
			ks = append(ks, r.Vals[0].(int32))
		}
	} else {
		for _, vr := range mt.view(t) {
			ks = append(ks, vr.vals[0].(int32))
		}
	}
	sort.Slice(ks, func(i, j int) bool { return ks[i] < ks[j] })
	return ks
}

func genStmt(r *rng, c *CrashCfg, e *Exec, mt *MTxn, kg *keyGen) *Stmt {
	ts := &c.Tables[r.Intn(len(c.Tables))]
	if len(e.Created) > 0 {
		ts = e.Created[r.Intn(len(e.Created))]
	}
	ks := visibleKeys(e, mt, ts.Name)
	kind := r.Intn(10)
	if len(ks) == 0 || (c.Churn && r.Chance(0.6)) {
		kind = 0
	}
	keyPred := func() *Pred {
		k := ks[r.Intn(len(ks))]
		if c.Pressure && r.Chance(0.7) {
			return &Pred{Logic: "OR", L: &Pred{Col: "k", Op: "=", Val: k}, R: &Pred{Col: "k", Op: "=", Val: ks[r.Intn(len(ks))]}}
		}
		switch r.Intn(6) {
		case 0: // small range
			return &Pred{Logic: "AND", L: &Pred{Col: "k", Op: ">=", Val: k}, R: &Pred{Col: "k", Op: "<=", Val: k + int32(r.Intn(3))}}
		case 1: // OR form: sequential scan path
			return &Pred{Logic: "OR", L: &Pred{Col: "k", Op: "=", Val: k}, R: &Pred{Col: "k", Op: "=", Val: ks[r.Intn(len(ks))]}}
		default:
			return &Pred{Col: "k", Op: "=", Val: k}
		}
	}
	switch {
	case kind <= 3: // insert (the SQL front end takes one row per INSERT statement)
		st := &Stmt{Kind: "insert", Table: ts.Name, Cols: colNames(ts)}
		st.Rows = append(st.Rows, genRow(r, ts, kg.fresh(ts.Name)))
		return st
	case kind <= 6: // update
		st := &Stmt{Kind: "update", Table: ts.Name, Where: keyPred()}
		st.Set = append(st.Set, SetItem{"v", int32(1000 + r.Intn(100000))})
		if len(ts.Cols) > 2 && r.Chance(0.6) {
			// growing / shrinking / same-size varchar
			var s string
			switch r.Intn(3) {
			case 0:
				s = r.Str(1 + r.Intn(4)) // shrink: forces relocation
			case 1:
				s = randVarchar(r, ts.Wide*2) // grow
			default:
				s = randVarchar(r, ts.Wide)
			}
			if r.Chance(0.5) {
				st.Set = []SetItem{{"s", s}}
			} else {
				st.Set = append(st.Set, SetItem{"s", s})
			}
		}
		return st
	case kind <= 8: // delete
		if c.Churn && r.Chance(0.6) {
			// a contiguous run of keys: every entry of several nodes of the wide varchar index (and often of
			// the integer ones) goes away, the nodes are deallocated, and the inserts and growing updates that
			// follow split nodes again: NewPage takes reused ids while it evicts dirty victims
			k := ks[r.Intn(len(ks))]
			return &Stmt{Kind: "delete", Table: ts.Name, Where: &Pred{Logic: "AND", L: &Pred{Col: "k", Op: ">=", Val: k}, R: &Pred{Col: "k", Op: "<=", Val: k + int32(15+r.Intn(45))}}}
		}
		return &Stmt{Kind: "delete", Table: ts.Name, Where: keyPred()}
	default: // select
		return &Stmt{Kind: "select", Table: ts.Name, Cols: colNames(ts), Where: keyPred()}
	}
}

// ---------------------------------------------------------------- images

type Image struct {
	DB  []byte
	Log []byte
}

func (im Image) clone() Image {
	return Image{append([]byte{}, im.DB...), append([]byte{}, im.Log...)}
}

const pageSize = 4096

func applyEvent(im *Image, ev *disk.SimEvent) {
	switch ev.Kind {
	case 'P':
		off := int(ev.Page) * pageSize
		if need := off + pageSize; need > len(im.DB) {
			im.DB = append(im.DB, make([]byte, need-len(im.DB))...)
		}
		copy(im.DB[off:off+pageSize], ev.Data)
	case 'L':
		im.Log = append(im.Log, ev.Data...)
	case 'G':
		im.Log = im.Log[:0]
	}
}

// Tear describes a torn final write.
type Tear struct {
	Kind string `json:"kind"` // "log" | "page"
	Keep int    `json:"keep"` // log: bytes of the final WriteLog that reached the file; page: sectors
	Note string `json:"note,omitempty"`
}

func applyTorn(im *Image, ev *disk.SimEvent, t Tear) {
	switch ev.Kind {
	case 'L':
		k := t.Keep
		if k > len(ev.Data) {
			k = len(ev.Data)
		}
		im.Log = append(im.Log, ev.Data[:k]...)
	case 'P':
		off := int(ev.Page) * pageSize
		if need := off + pageSize; need > len(im.DB) {
			im.DB = append(im.DB, make([]byte, need-len(im.DB))...)
		}
		n := t.Keep * 512
		copy(im.DB[off:off+n], ev.Data[:n])
	}
}

func writeImage(path string, im Image) error {
	if err := os.WriteFile(path+".db", im.DB, 0644); err != nil {
		return err
	}
	return os.WriteFile(path+".log", im.Log, 0644)
}

func readImage(path string) Image {
	db, _ := os.ReadFile(path + ".db")
	lg, _ := os.ReadFile(path + ".log")
	return Image{db, lg}
}

// ioIndexes returns the indexes of I/O events (P, L, G) in the trace.
func ioIndexes(evs []disk.SimEvent) []int {
	var out []int
	for i := range evs {
		if evs[i].Kind != 'M' {
			out = append(out, i)
		}
	}
	return out
}

// commitState at trace position pos (events [0,pos) performed): number of commits that returned,
// and whether a commit is in flight.
func commitState(evs []disk.SimEvent, pos int) (returned int, inflight bool) {
	called := 0
	for i := 0; i < pos && i < len(evs); i++ {
		if evs[i].Kind == 'M' {
			switch evs[i].Mark {
			case "commit-called":
				called++
			case "commit-returned":
				returned++
			case "commit-failed":
				called--
			}
		}
	}
	return returned, called > returned
}

// phaseAt classifies a trace position by what the engine was doing.
func phaseAt(evs []disk.SimEvent, pos int) string {
	phase := "idle"
	for i := 0; i < pos && i < len(evs); i++ {
		if evs[i].Kind != 'M' {
			continue
		}
		switch evs[i].Mark {
		case "commit-called":
			phase = "commit"
		case "abort-called":
			phase = "abort"
		case "stmt-begin":
			phase = "statement"
		case "checkpoint-begin":
			phase = "checkpoint"
		case "ddl-begin":
			phase = "ddl"
		case "recovery-begin":
			phase = "recovery"
		case "commit-returned", "abort-returned", "stmt-end", "checkpoint-end", "ddl-end", "recovery-end":
			phase = "idle"
		}
	}
	return phase
}

// ---------------------------------------------------------------- violations

type Fault struct {
	Kind      string `json:"kind"`  // crash | torn_log | torn_page | nested_crash
	After     int    `json:"after"` // number of I/O events performed before the crash (index into the I/O event list)
	Tear      *Tear  `json:"tear,omitempty"`
	Depth     int    `json:"depth,omitempty"`
	Phase     string `json:"phase,omitempty"`
	GCDone    bool   `json:"gc_done,omitempty"`    // nested: the recovery run had already truncated the log
	LoserData bool   `json:"loser_data,omitempty"` // nested: the first crash image had a loser with data records (undo has work)
}

type Violation struct {
	Property string          `json:"property"`
	Class    string          `json:"class"`
	Detail   string          `json:"detail"`
	Faults   []Fault         `json:"faults,omitempty"`
	Site     string          `json:"site,omitempty"` // panic site
	Features map[string]bool `json:"features,omitempty"`
	Finding  string          `json:"finding,omitempty"` // key of the known finding this was attributed to
}

func (v Violation) Key() string { return v.Property + "/" + v.Class + "/" + v.Site }

// ---------------------------------------------------------------- one crashsim run

type CrashRun struct {
	Seed             uint64
	Cfg              CrashCfg
	Ops              []Op
	Dir              string
	Events           []disk.SimEvent
	SetupEnd         int // trace position where the setup phase ended
	Snaps            []Snapshot
	SetupCommits     int
	Exec             *Exec
	FinalImage       Image
	Viol             []Violation
	Stats            map[string]int
	Tables           []string
	Features         map[string]bool
	LogRecTypesByTxn map[int32][]int32
	HeapPages        map[int32]bool
	PreCrashDiv      []Divergence
	Infeasible       string
	EndPins          map[int32]int32
	Specs            map[string]*TableSpec
}

func (cr *CrashRun) stat(k string, n int) {
	if cr.Stats == nil {
		cr.Stats = map[string]int{}
	}
	cr.Stats[k] += n
}

func createTableSQL(ts *TableSpec) string {
	var cs []string
	for _, c := range ts.Cols {
		cs = append(cs, c.Name+" "+c.Type.SQL())
	}
	return "CREATE TABLE " + ts.Name + "(" + strings.Join(cs, ", ") + ");"
}

// minFrames: permanently pinned pages after set-up plus head-room for a statement.
func minFramesFor(cfg *CrashCfg) int {
	cols := 0
	for _, t := range cfg.Tables {
		cols += len(t.Cols)
	}
	for _, t := range cfg.LateTables {
		cols += len(t.Cols)
	}
	// measured (pin vector after set-up): each skip-list index keeps three pages pinned for good
	// (header page, start node, sentinel node); a statement needs a handful of frames on top
	return 3*cols + 8
}

// execute runs set-up + history (generated when ops==nil, replayed otherwise) with the recorder on.
func (cr *CrashRun) execute(ops []Op, gen *rng) {
	cfg := &cr.Cfg
	path := cr.Dir + "/db"
	removeDBFiles(path)
	backgroundOff()
	simrt.SeedRun(cr.Seed, cfg.MapPermute)
	rec := &disk.SimRecorder{}
	disk.SimRec = rec
	defer func() { disk.SimRec = nil }()
	if cfg.Frames < minFramesFor(cfg) {
		cfg.Frames = minFramesFor(cfg)
	}
	s, pi := OpenSUT(path, cfg.Frames)
	if pi != nil {
		cr.Infeasible = "open: " + pi.String()
		return
	}
	m := &Model{}
	for i := range cfg.Tables {
		ts := &cfg.Tables[i]
		disk.SimMark("ddl-begin", int64(i), 0)
		res := s.AutoSQL(createTableSQL(ts))
		disk.SimMark("ddl-end", int64(i), 0)
		if !res.OK() {
			cr.Infeasible = fmt.Sprintf("create table: %v %v", res.Err, res.Panic)
			s.Crash()
			return
		}
		m.AddTable(ts.Name, ts.Cols)
		cr.Tables = append(cr.Tables, ts.Name)
	}
	e := NewExec(s, m)
	cr.Exec = e
	e.Late = cfg.LateTables
	cr.Specs = map[string]*TableSpec{}
	for i := range cfg.Tables {
		e.Created = append(e.Created, &cfg.Tables[i])
		cr.Specs[cfg.Tables[i].Name] = &cfg.Tables[i]
	}
	for i := range cfg.LateTables {
		// (a late table that is never created must be absent after every restart)
		cr.Tables = append(cr.Tables, cfg.LateTables[i].Name)
		cr.Specs[cfg.LateTables[i].Name] = &cfg.LateTables[i]
	}
	kg := &keyGen{}
	setupRng := newRng(simrt.Mix(cr.Seed, 21))
	// initial committed rows
	for i := 0; i < cfg.InitRows; i++ {
		ts := &cfg.Tables[i%len(cfg.Tables)]
		st := &Stmt{Kind: "insert", Table: ts.Name, Cols: colNames(ts), Rows: [][]any{genRow(setupRng, ts, kg.fresh(ts.Name))}}
		e.Run(-1, Op{Kind: "auto", Stmt: st})
		if e.Panic != nil {
			cr.Infeasible = "setup insert: " + e.Panic.String()
			s.Crash()
			return
		}
	}
	if cfg.Churn && e.Panic == nil {
		// the ids of skip-list nodes emptied by a delete become reusable only at the next start (redo
		// rebuilds the reusable id list from the DEALLOCATE records): empty many nodes now, restart cleanly,
		// and the session under test allocates from a non-empty reusable list while its pool is full
		lo, hi := int32(3), int32(cfg.InitRows) // (all but two rows: every index loses all its nodes but the ones that hold the survivors)
		e.Run(-1, Op{Kind: "auto", Stmt: &Stmt{Kind: "delete", Table: cfg.Tables[0].Name, Where: &Pred{Logic: "AND", L: &Pred{Col: "k", Op: ">=", Val: lo}, R: &Pred{Col: "k", Op: "<=", Val: hi}}}})
		if e.Panic != nil {
			cr.Infeasible = "setup delete: " + e.Panic.String()
			s.Crash()
			return
		}
	}
	e.Outcomes = nil
	if cfg.CleanRestartInSetup || cfg.Churn {
		if pi := s.Shutdown(); pi != nil {
			cr.Infeasible = "setup shutdown: " + pi.String()
			return
		}
		s, pi = OpenSUT(path, cfg.Frames)
		if pi != nil {
			cr.Infeasible = "setup reopen: " + pi.String()
			return
		}
		e.S = s
	}
	cr.SetupCommits = e.Commits
	disk.SimMark("setup-end", 0, 0)
	cr.SetupEnd = len(rec.Events)

	if ops != nil {
		for i, op := range ops {
			if !e.Run(i, op) {
				break
			}
		}
		cr.Ops = ops
	} else {
		for i := 0; i < cfg.NOps; i++ {
			op := genOp(gen, cfg, e, kg)
			cr.Ops = append(cr.Ops, op)
			if !e.Run(i, op) {
				break
			}
		}
	}
	// heap pages of user tables and of the catalog (for M-WAL)
	cr.HeapPages = map[int32]bool{0: true, 1: true}
	if e.Panic == nil {
		func() {
			defer func() { recover() }()
			saved := disk.SimRec
			disk.SimRec = nil
			defer func() { disk.SimRec = saved }()
			for _, tn := range cr.Tables {
				tm := s.Cat.GetTableByName(tn)
				if tm == nil {
					continue
				}
				pid := tm.Table().GetFirstPageID()
				for n := 0; pid.IsValid() && n < 100000; n++ {
					cr.HeapPages[int32(pid)] = true
					pg := s.Shi.GetBufferPoolManager().FetchPage(pid)
					if pg == nil {
						break
					}
					next := int32(binary.LittleEndian.Uint32(pg.Data()[12:16]))
					s.Shi.GetBufferPoolManager().UnpinPage(pid, false)
					if next < 0 {
						break
					}
					pid = types.PageID(next)
				}
			}
		}()
	}
	cr.EndPins = s.PinVector()
	s.Crash()
	cr.Events = rec.Events
	cr.Snaps = e.Snaps
	cr.FinalImage = readImage(path)
}

// ---------------------------------------------------------------- recovery check of one image

type RecoverOutcome struct {
	Panic   *PanicInfo
	Tables  map[string][]string // canonical rows per table (nil entry: table missing / scan failed)
	ScanErr map[string]string
	Missing map[string]bool // table is not in the catalog
	Events  []disk.SimEvent // I/O trace of the recovery run itself
}

// recoverImage starts the real engine on the image and reads every table back.
// The recovery run is recorded (for nested crashes). leaveOpen: caller shuts down.
func recoverImage(dir string, im Image, frames int, tables []string, record bool) (s *SUT, out RecoverOutcome) {
	progressTick()
	path := dir + "/r"
	removeDBFiles(path)
	if err := writeImage(path, im); err != nil {
		panic(err)
	}
	var rec *disk.SimRecorder
	if record {
		rec = &disk.SimRecorder{}
		disk.SimRec = rec
		defer func() { disk.SimRec = nil }()
	}
	// deterministic step budget for the restart: 1000 disk calls per page and per 20 bytes of log + 10^4
	disk.SimCallBudget = int64(1000*(len(im.DB)/pageSize+len(im.Log)/20) + 10000)
	s, pi := OpenSUT(path, frames)
	disk.SimCallBudget = 0
	if rec != nil {
		out.Events = rec.Events
		disk.SimRec = nil
	}
	if pi != nil {
		out.Panic = pi
		return nil, out
	}
	out.Tables = map[string][]string{}
	out.ScanErr = map[string]string{}
	out.Missing = map[string]bool{}
	for _, tn := range tables {
		if s.Cat.GetTableByName(tn) == nil {
			out.Missing[tn] = true
			continue
		}
		rows, _, res := s.ScanHeap(tn)
		if res.Panic != nil {
			out.ScanErr[tn] = res.Panic.String()
			if out.Panic == nil {
				out.Panic = res.Panic
			}
			continue
		}
		if res.Err != nil || res.Aborted {
			out.ScanErr[tn] = fmt.Sprintf("err=%v aborted=%v", res.Err, res.Aborted)
			continue
		}
		out.Tables[tn] = canonRows(rows)
	}
	return s, out
}

// matchSnapshot: does the recovered state equal snapshot sn on every table?
func matchSnapshot(out *RecoverOutcome, sn Snapshot, tables []string) (bool, string) {
	for _, tn := range tables {
		if _, exists := sn[tn]; !exists {
			// the table had not been created in this snapshot: it must not be in the catalog
			if !out.Missing[tn] {
				return false, fmt.Sprintf("table %s exists but was not created", tn)
			}
			continue
		}
		if out.Missing[tn] {
			return false, fmt.Sprintf("table %s is not in the catalog", tn)
		}
		got, ok := out.Tables[tn]
		if !ok {
			return false, fmt.Sprintf("table %s unreadable: %s", tn, out.ScanErr[tn])
		}
		if !sameStrings(sn[tn], got) {
			return false, fmt.Sprintf("table %s: %s", tn, diffStrings(sn[tn], got))
		}
	}
	return true, ""
}
