package main

// sqlsim.go: sequential SQL-level simulation with restarts (clean / crash at a quiescent point),
// DDL in the middle of the history, aborts, statistics refreshes and the seam monitors
// M-IDX (C07), M-PIN (C14), M-PAGE (C15), plus the C03 / C09 / C10 / C06 oracles.

import (
	"encoding/binary"
	"encoding/json"
	"fmt"
	"math"
	"os"
	"sort"
	"strings"

	"github.com/ryogrid/SamehadaDB/lib/storage/disk"
	"github.com/ryogrid/SamehadaDB/lib/storage/page"
	"github.com/ryogrid/SamehadaDB/lib/storage/tuple"
	"github.com/ryogrid/SamehadaDB/lib/types"
	"verif/simrt"
)

type SqlCfg struct {
	Frames        int         `json:"frames"`
	Tables        []TableSpec `json:"tables"`      // tables created at the start
	LateTables    []TableSpec `json:"late_tables"` // created by ddl ops later
	NOps          int         `json:"n_ops"`
	Slots         int         `json:"slots"`
	MapPermute    bool        `json:"map_permute"`
	PAbort        float64     `json:"p_abort"`
	PRestart      float64     `json:"p_restart"`
	PCrashRestart float64     `json:"p_crash_restart"`
	PDDL          float64     `json:"p_ddl"`
	PStats        float64     `json:"p_stats"`
	PSelect       float64     `json:"p_select"`
	AbortFocus    bool        `json:"abort_focus"` // C03: observable snapshot before/after every aborted transaction
	InitRows      int         `json:"init_rows"`
	Rich          bool        `json:"rich"`  // C06: boundary values, NULLs, negative literals, redundant/contradictory predicates
	Joins         bool        `json:"joins"` // C11: join queries
	PinFocus      bool        `json:"pin_focus"`
	Nulls         bool        `json:"nulls"` // NULL values (known finding null-in-indexed-column): a minority of the C06 runs
}

func genCols(r *rng, rich bool) []Col {
	cols := []Col{{"k", TInt}}
	n := 1 + r.Intn(3)
	names := []string{"a", "b", "c", "d"}
	for i := 0; i < n; i++ {
		t := TInt
		switch r.Intn(6) {
		case 0, 1:
			t = TVarchar
		case 2:
			if rich {
				t = TFloat
			}
		}
		cols = append(cols, Col{names[i], t})
	}
	return cols
}

func assignIdxKinds(r *rng, ts *TableSpec) {
	mode := r.Intn(4) // 0: btree everywhere possible, 1: unique key + skip lists, 2: mixed, 3: hash index on the key column
	ts.IdxKinds = make([]string, len(ts.Cols))
	if mode == 3 {
		// the hash index has no UpdateEntry and no range scan: tables that carry one get INSERT / DELETE /
		// SELECT only, and predicates on the hash column other than one equality go through a sequential scan
		hc := 0
		if r.Chance(0.5) {
			hc = len(ts.Cols) - 1 // (index pages are allocated column by column: here the hash blocks are the newest pages of the table)
		}
		ts.IdxKinds[hc] = "hash"
		return
	}
	if ts.Wide > 6 {
		// (B-tree keys: a varchar key must stay below 24 bytes)
		for _, c := range ts.Cols {
			if c.Type == TVarchar && mode != 1 {
				ts.Wide = 6
			}
		}
	}
	for i := range ts.Cols {
		switch {
		case i == 0 && (mode == 1 || (mode == 2 && r.Chance(0.5))):
			ts.IdxKinds[i] = "uniq"
		case mode == 0 || (mode == 2 && r.Chance(0.5)):
			ts.IdxKinds[i] = "btree"
		}
	}
}

func genSqlCfg(r *rng, prop string, tier string) SqlCfg {
	c := SqlCfg{}
	btreeRun := false
	nt := 1 + r.Intn(2)
	for i := 0; i < nt; i++ {
		c.Tables = append(c.Tables, TableSpec{Name: fmt.Sprintf("t%d", i), Cols: genCols(r, true), Wide: []int{6, 30, 120, 200}[r.Intn(4)]})
	}
	if ((prop == "C03" || prop == "C07" || prop == "C09") && r.Chance(0.4)) || os.Getenv("VERIF_FORCE_IDXKINDS") != "" {
		// the other index kinds (the SQL front end only ever asks for skip lists): B-tree on numeric and
		// short varchar columns, unique skip list on the key column
		for i := range c.Tables {
			assignIdxKinds(r, &c.Tables[i])
		}
		btreeRun = true
	}
	c.Frames = []int{0, 0, 4, 16, 64}[r.Intn(5)]
	c.NOps = 10 + r.Intn(40)
	if tier == "thorough" {
		c.NOps += r.Intn(80)
	}
	c.Slots = 1
	c.MapPermute = r.Chance(0.5)
	c.PAbort = []float64{0, 0.15, 0.4}[r.Intn(3)]
	c.PRestart = []float64{0, 0.03, 0.08}[r.Intn(3)]
	c.PCrashRestart = []float64{0, 0.02, 0.05}[r.Intn(3)]
	c.PStats = []float64{0, 0.05, 0.15}[r.Intn(3)]
	c.PSelect = 0.25
	c.InitRows = []int{0, 5, 20, 60}[r.Intn(4)]
	switch prop {
	case "C01":
		// committed data across sequences of restarts (sessions that log nothing, crash after crash, ...)
		c.PRestart = []float64{0.03, 0.08, 0.15}[r.Intn(3)]
		c.PCrashRestart = []float64{0.05, 0.1, 0.2}[r.Intn(3)]
		c.PAbort = 0.15
	case "C09":
		c.PRestart = 0.1
		c.PCrashRestart = []float64{0, 0.03}[r.Intn(2)]
		if r.Chance(0.5) {
			// further work after a reopen includes DDL
			for i := 0; i < 1+r.Intn(3); i++ {
				c.LateTables = append(c.LateTables, TableSpec{Name: fmt.Sprintf("u%d", i), Cols: genCols(r, false), Wide: []int{6, 30, 120}[r.Intn(3)]})
			}
			c.PDDL = 0.08
		}
	case "C10":
		n := 1 + r.Intn(4)
		if r.Chance(0.1) {
			// enough tables and columns for the columns catalog to spill onto a second page
			n = 12 + r.Intn(6)
			c.NOps += 40
		}
		for i := 0; i < n; i++ {
			c.LateTables = append(c.LateTables, TableSpec{Name: fmt.Sprintf([]string{"u%d", "u%d", "U%d", "Ux%d"}[r.Intn(4)], i), Cols: genCols(r, true), Wide: []int{6, 30, 120}[r.Intn(3)]})
		}
		if n >= 12 {
			// column names of very different lengths: catalog rows of different sizes leave holes on the
			// catalog pages that later, shorter rows fill (a table's column rows are then not contiguous)
			for i := range c.LateTables {
				for j := 1; j < len(c.LateTables[i].Cols); j++ {
					if r.Chance(0.5) {
						c.LateTables[i].Cols[j].Name += "_" + strings.ToLower(r.Str(5+r.Intn(45)))
					}
				}
			}
		}
		if len(c.Tables[0].IdxKinds) > 0 {
			for i := range c.LateTables {
				if r.Chance(0.7) {
					assignIdxKinds(r, &c.LateTables[i])
				}
			}
		}
		c.PDDL = 0.1
		if n >= 12 {
			c.PDDL = 0.5
		}
		c.PRestart = 0.08
		c.PCrashRestart = 0.06
	case "C03":
		c.AbortFocus = true
		c.PAbort = 0.5
		c.Slots = 1 + r.Intn(2)
		if r.Chance(0.25) {
			// eviction pressure: a heap larger than the frames that are not pinned for good, so that pages
			// a transaction changed are evicted before it aborts, and pages the abort restored are evicted
			// again before anything else touches them
			c.Tables = []TableSpec{{Name: "t0", Cols: []Col{{"k", TInt}, {"a", TVarchar}}, Wide: 200}}
			c.Frames = 0
			c.InitRows = 120 + r.Intn(120)
			c.PRestart, c.PCrashRestart = 0, 0
		}
	case "C07":
		c.PAbort = 0.3
		c.PRestart = 0.04
		c.PCrashRestart = 0.04
	case "C14":
		c.PSelect = 0.4
		c.PAbort = 0.2
		c.Joins = r.Chance(0.6)
		c.PStats = []float64{0, 0.1, 0.3}[r.Intn(3)]
		c.PinFocus = true
	case "C06":
		c.Rich = true
		c.Nulls = r.Chance(0.12)
		c.PSelect = 0.6
		c.PStats = []float64{0, 0.1, 0.3}[r.Intn(3)]
		c.PRestart, c.PCrashRestart = 0, 0
		c.PAbort = 0.1
	case "C11":
		c.Joins = true
		c.PSelect = 0.6
		c.PStats = []float64{0, 0.1, 0.3}[r.Intn(3)]
		c.PRestart, c.PCrashRestart = 0, 0
		c.PAbort = 0.05
	}
	if c.Joins {
		// join tables: an int join column j with duplicates and gaps in every table
		nt := 2 + r.Intn(2)
		c.Tables = nil
		for i := 0; i < nt; i++ {
			cols := []Col{{"k", TInt}, {"j", TInt}}
			if r.Chance(0.7) {
				cols = append(cols, Col{"v", []ColType{TInt, TVarchar, TFloat}[r.Intn(3)]})
			}
			c.Tables = append(c.Tables, TableSpec{Name: fmt.Sprintf("t%d", i), Cols: cols, Wide: []int{6, 30, 120}[r.Intn(3)]})
		}
		c.InitRows = []int{0, 2, 8, 25, 60, 90}[r.Intn(6)]
	}
	if (prop == "C09" && r.Chance(0.05)) || os.Getenv("VERIF_FORCE_SPARSEHASH") != "" {
		// sparse hash index as the newest object of the file: a single small table whose hash blocks are
		// the last pages allocated, an early clean shutdown, then growth
		c.Tables = []TableSpec{{Name: "t0", Cols: []Col{{"k", TInt}, {"a", TInt}}, Wide: 6, IdxKinds: []string{"", "hash"}}}
		c.LateTables = nil
		c.InitRows = []int{0, 2, 3, 5}[r.Intn(4)]
		c.PRestart = 0.04
		c.PCrashRestart = 0
		c.PAbort = 0.05
		c.PSelect = 0.05
		c.NOps = 500 + r.Intn(400) // enough inserts after a reopen for the heap to grow onto new pages
	}
	hashRun := false
	for _, t := range c.Tables {
		if hashCol(&t) != "" {
			hashRun = true
		}
	}
	if hashRun && r.Chance(0.8) {
		// known finding hash-index-pages-lost-by-crash: most hash runs stay outside its trigger
		c.PCrashRestart = 0
	}
	if btreeRun && r.Chance(0.7) {
		// known finding btree-header-stale-after-crash-then-clean-restart needs a crash restart followed
		// by a clean one: most B-tree runs stay outside that trigger (and do not lose their time in it)
		c.PCrashRestart = 0
	}
	return c
}

// ---------------------------------------------------------------- generator

var genNulls = false

// genNegInts: negative integer literals (only the C06 generator explores them; see DESIGN.md section 6)
var genNegInts = false

// richVal: values from the corners of the type (C06); may be inexpressible as SQL literals.
func richVal(r *rng, t ColType, wide int) (v any, needsPlan bool) {
	switch t {
	case TInt:
		switch r.Intn(8) {
		case 0:
			return int32(2147483647), false
		case 1:
			return int32(-2147483647), true // negative literals are not accepted in a VALUES list
		case 2:
			return int32(-2147483648), true
		case 3:
			if genNulls {
				return nil, true
			}
		}
	case TFloat:
		switch r.Intn(8) {
		case 0:
			return float32(math.Copysign(0, -1)), true
		case 1:
			return math.Float32frombits(1), true // smallest denormal
		case 2:
			return float32(math.MaxFloat32), true
		case 3:
			return float32(-math.MaxFloat32), true
		case 4:
			if genNulls {
				return nil, true
			}
		case 5:
			return float32(-1 - r.Intn(40)), true
		}
	case TVarchar:
		switch r.Intn(8) {
		case 0:
			return "", true
		case 1:
			return r.Str(200 + r.Intn(50)), false
		case 2:
			return "a b  c", false
		case 3:
			if genNulls {
				return nil, true
			}
		}
	}
	return randVal(r, t, wide), false
}

func randVal(r *rng, t ColType, wide int) any {
	switch t {
	case TInt:
		switch r.Intn(12) {
		case 0:
			return int32(0)
		case 1:
			if genNegInts {
				return int32(-1 - r.Intn(50))
			}
			return int32(100 + r.Intn(50))
		default:
			return int32(r.Intn(60))
		}
	case TFloat:
		return float32(r.Intn(200)) / 4
	case TVarchar:
		n := 1 + r.Intn(wide+1)
		if r.Chance(0.3) {
			n = 1 + r.Intn(4)
		}
		return r.Str(n)
	case TBool:
		return r.Chance(0.5)
	}
	return nil
}

func sqlRow(r *rng, ts *TableSpec, k int32) []any {
	row := []any{k}
	for _, c := range ts.Cols[1:] {
		if c.Name == "j" {
			// join keys: few values, many duplicates (more than three rows per key are common), gaps
			row = append(row, int32([]int{0, 0, 1, 1, 1, 2, 3, 5}[r.Intn(8)]))
			continue
		}
		row = append(row, randVal(r, c.Type, ts.Wide))
	}
	return row
}

// richRow: like sqlRow with corner values; plan=true when some value needs the plan-level API.
func richRow(r *rng, ts *TableSpec, k int32) (row []any, plan bool) {
	row = []any{k}
	for _, c := range ts.Cols[1:] {
		v, np := richVal(r, c.Type, ts.Wide)
		if np {
			plan = true
		}
		if iv, ok := v.(int32); ok && iv < 0 {
			plan = true
		}
		row = append(row, v)
	}
	return
}

// opFeatures: properties of the operations of a (minimised) replay that known findings key on.
func hashCol(ts *TableSpec) string {
	for i, k := range ts.IdxKinds {
		if k == "hash" {
			return ts.Cols[i].Name
		}
	}
	return ""
}

// hashSafe: a predicate that mentions a hash-indexed column would make the optimizer choose an index
// range scan, which the hash index does not have: it is wrapped into OR(p, p), which is answered by a
// sequential scan. (The hash index itself is compared with the heap by M-IDX through ScanKey.)
func hashSafe(ts *TableSpec, p *Pred) *Pred {
	hc := hashCol(ts)
	if hc == "" || p == nil {
		return p
	}
	leaves, bad, hasOr := 0, false, false
	var walk func(q *Pred)
	walk = func(q *Pred) {
		if q == nil {
			return
		}
		if q.Logic != "" {
			if q.Logic == "OR" {
				hasOr = true
			}
			walk(q.L)
			walk(q.R)
			return
		}
		if q.Col == hc {
			leaves++
			if q.Op != "=" {
				bad = true
			}
		}
	}
	walk(p)
	_ = bad
	if hasOr || leaves == 0 {
		return p
	}
	// (even a single equality is planned as a range scan once statistics exist)
	return &Pred{Logic: "OR", L: p, R: p}
}

// sqlFeatures: features of the op list plus those of the configuration (index kinds of the tables).
func sqlFeatures(cfg *SqlCfg, ops []Op) map[string]bool {
	f := opFeatures(ops)
	if cfg != nil {
		for _, ts := range append(append([]TableSpec{}, cfg.Tables...), cfg.LateTables...) {
			for _, k := range ts.IdxKinds {
				if k != "" {
					f["idx:"+k] = true
				}
			}
		}
	}
	return f
}

func opFeatures(ops []Op) map[string]bool {
	f := map[string]bool{}
	var walk func(p *Pred, cols map[string]int, hasOr *bool)
	walk = func(p *Pred, cols map[string]int, hasOr *bool) {
		if p == nil {
			return
		}
		if p.Logic != "" {
			if p.Logic == "OR" {
				*hasOr = true
			}
			walk(p.L, cols, hasOr)
			walk(p.R, cols, hasOr)
			return
		}
		cols[p.Col]++
		if p.Val == nil {
			f["stmt:null-literal"] = true
		}
		switch x := p.Val.(type) {
		case int32:
			if x < 0 {
				f["stmt:neg-literal"] = true
			}
		case float32:
			if x < 0 {
				f["stmt:neg-literal"] = true
			}
		}
	}
	for _, op := range ops {
		switch op.Kind {
		case "restart-crash":
			f["ctx:crash-restart"] = true
		case "restart-clean":
			f["ctx:clean-restart"] = true
		case "ddl":
			f["ctx:late-ddl"] = true
		case "stats":
			f["ctx:stats-refresh"] = true
		}
		st := op.Stmt
		if st == nil {
			continue
		}
		f["stmt:"+st.Kind] = true
		if st.Join != nil {
			f["stmt:join"] = true
			if len(st.Join.Tables) > 2 {
				f["stmt:join3"] = true
			}
		}
		if st.Plan {
			f["stmt:plan-level-insert"] = true
		}
		for _, r := range st.Rows {
			for _, v := range r {
				if v == nil {
					f["data:null"] = true
				}
				switch x := v.(type) {
				case float32:
					if x != x || x > 1e30 || x < -1e30 || (x != 0 && x < 1e-30 && x > -1e-30) || (x == 0 && math.Signbit(float64(x))) {
						f["data:float-special"] = true
					}
				case string:
					if x == "" {
						f["data:empty-string"] = true
					}
					if len(x) > 150 {
						f["data:long-string"] = true
					}
				}
			}
		}
		for _, si := range st.Set {
			if si.Val == nil {
				f["data:null"] = true
			}
			switch x := si.Val.(type) {
			case int32:
				if x < 0 {
					f["stmt:neg-literal"] = true
				}
			case float32:
				if x < 0 {
					f["stmt:neg-literal"] = true
				}
			}
		}
		cols := map[string]int{}
		hasOr := false
		walk(st.Where, cols, &hasOr)
		if hasOr {
			f["stmt:where-or"] = true
		}
		for _, n := range cols {
			if n > 1 {
				f["stmt:where-multi-bound"] = true
			}
		}
	}
	return f
}

// richPredicate: several bounds on ONE column (redundant, overlapping, contradictory) in random
// conjunct order, optionally with a conjunct on another column.
func richPredicate(r *rng, ts *TableSpec, view []viewRow) *Pred {
	ci := r.Intn(len(ts.Cols))
	col := ts.Cols[ci]
	pickV := func() any {
		if len(view) > 0 && r.Chance(0.7) {
			if v := view[r.Intn(len(view))].vals[ci]; v != nil {
				return v
			}
		}
		return randVal(r, col.Type, ts.Wide)
	}
	ops := []string{"=", "<", "<=", ">", ">=", "<>"}
	if col.Type == TVarchar {
		ops = []string{"=", "<>", "=", "<", ">="}
	}
	n := 2 + r.Intn(2)
	var p *Pred
	for i := 0; i < n; i++ {
		leaf := &Pred{Col: col.Name, Op: ops[r.Intn(len(ops))], Val: pickV()}
		if i == n-1 && r.Chance(0.3) && len(ts.Cols) > 1 {
			c2 := (ci + 1 + r.Intn(len(ts.Cols)-1)) % len(ts.Cols)
			leaf = &Pred{Col: ts.Cols[c2].Name, Op: "=", Val: randVal(r, ts.Cols[c2].Type, ts.Wide)}
			if len(view) > 0 {
				if v := view[r.Intn(len(view))].vals[c2]; v != nil {
					leaf.Val = v
				}
			}
		}
		if p == nil {
			p = leaf
		} else if r.Chance(0.5) {
			p = &Pred{Logic: "AND", L: p, R: leaf}
		} else {
			p = &Pred{Logic: "AND", L: leaf, R: p}
		}
	}
	return p
}

// joinStmt: equality join over 2-3 tables, conjunctive filter, arbitrary select list.
func (g *sqlGen) joinStmt(e *Exec) *Stmt {
	r := g.r
	tbs := g.tables(e)
	n := 2
	if len(tbs) >= 3 && r.Chance(0.4) {
		n = 3
	}
	perm := r.permN(len(tbs))
	var chosen []*TableSpec
	for i := 0; i < n; i++ {
		chosen = append(chosen, tbs[perm[i]])
	}
	js := &JoinSpec{}
	for _, t := range chosen {
		js.Tables = append(js.Tables, t.Name)
	}
	for i := 1; i < n; i++ {
		l := chosen[r.Intn(i)]
		js.On = append(js.On, JoinOn{L: l.Name + ".j", R: chosen[i].Name + ".j"})
		if r.Chance(0.15) {
			js.On[len(js.On)-1] = JoinOn{L: l.Name + ".k", R: chosen[i].Name + ".j"}
		}
	}
	st := &Stmt{Kind: "select", Table: chosen[0].Name, Join: js}
	if r.Chance(0.3) {
		st.Cols = []string{"*"}
	} else {
		var all []string
		for _, t := range chosen {
			for _, c := range t.Cols {
				all = append(all, t.Name+"."+c.Name)
			}
		}
		k := 1 + r.Intn(len(all))
		p2 := r.permN(len(all))
		for i := 0; i < k; i++ {
			st.Cols = append(st.Cols, all[p2[i]])
		}
	}
	nf := r.Intn(3)
	for i := 0; i < nf; i++ {
		t := chosen[r.Intn(n)]
		c := t.Cols[r.Intn(len(t.Cols))]
		ops := []string{"=", "<", "<=", ">", ">=", "<>"}
		if c.Type == TVarchar {
			ops = []string{"=", "<>"}
		}
		var v any = randVal(r, c.Type, t.Wide)
		if c.Name == "j" {
			v = int32(r.Intn(6))
		}
		mt := e.M.Table(t.Name)
		if len(mt.Rows) > 0 && r.Chance(0.6) {
			if vv := mt.Rows[r.Intn(len(mt.Rows))].Vals[mt.ColIdx(c.Name)]; vv != nil {
				v = vv
			}
		}
		leaf := &Pred{Col: t.Name + "." + c.Name, Op: ops[r.Intn(len(ops))], Val: v}
		if st.Where == nil {
			st.Where = leaf
		} else {
			st.Where = &Pred{Logic: "AND", L: st.Where, R: leaf}
		}
	}
	return st
}

// genPredicate: predicates over any column, shapes that need no parentheses.
func genPredicate(r *rng, ts *TableSpec, mt *MTable, view []viewRow) *Pred {
	leaf := func() *Pred {
		ci := r.Intn(len(ts.Cols))
		col := ts.Cols[ci]
		var v any
		if len(view) > 0 && r.Chance(0.7) {
			v = view[r.Intn(len(view))].vals[ci]
		}
		if v == nil {
			v = randVal(r, col.Type, ts.Wide) // no NULL constants in comparisons (col = NULL is not a SQL comparison)
		}
		ops := []string{"=", "=", "=", "<", "<=", ">", ">=", "<>"}
		if col.Type == TVarchar || col.Type == TBool {
			ops = []string{"=", "=", "<>"}
		}
		return &Pred{Col: col.Name, Op: ops[r.Intn(len(ops))], Val: v}
	}
	switch r.Intn(8) {
	case 0, 1, 2, 3:
		return leaf()
	case 4, 5:
		return &Pred{Logic: "AND", L: leaf(), R: leaf()}
	case 6:
		return &Pred{Logic: "OR", L: leaf(), R: leaf()}
	default:
		return &Pred{Logic: "OR", L: &Pred{Logic: "AND", L: leaf(), R: leaf()}, R: leaf()}
	}
}

type sqlGen struct {
	r    *rng
	cfg  *SqlCfg
	kg   keyGen
	late int
}

func (g *sqlGen) tables(e *Exec) []*TableSpec {
	var out []*TableSpec
	for i := range g.cfg.Tables {
		out = append(out, &g.cfg.Tables[i])
	}
	for i := 0; i < g.late; i++ {
		out = append(out, &g.cfg.LateTables[i])
	}
	return out
}

func (g *sqlGen) stmt(e *Exec, mt *MTxn) *Stmt {
	r := g.r
	tbs := g.tables(e)
	ts := tbs[r.Intn(len(tbs))]
	t := e.M.Table(ts.Name)
	var view []viewRow
	if mt != nil {
		view = mt.view(t)
	} else {
		view = e.M.Begin().view(t)
	}
	if g.cfg.Joins && r.Chance(g.cfg.PSelect*0.8) && len(tbs) >= 2 {
		return g.joinStmt(e)
	}
	if r.Chance(g.cfg.PSelect) {
		cols := colNames(ts)
		if r.Chance(0.4) {
			// projection in a different order
			r2 := append([]string{}, cols...)
			for i := len(r2) - 1; i > 0; i-- {
				j := r.Intn(i + 1)
				r2[i], r2[j] = r2[j], r2[i]
			}
			cols = r2[:1+r.Intn(len(r2))]
		}
		st := &Stmt{Kind: "select", Table: ts.Name, Cols: cols}
		if r.Chance(0.9) {
			if g.cfg.Rich && r.Chance(0.6) {
				st.Where = richPredicate(r, ts, view)
			} else {
				st.Where = genPredicate(r, ts, t, view)
			}
		}
		st.Where = hashSafe(ts, st.Where)
		return st
	}
	kind := r.Intn(10)
	if len(view) == 0 {
		kind = 0
	}
	if hashCol(ts) != "" && kind >= 4 && kind <= 7 {
		kind = []int{0, 9}[r.Intn(2)] // no UPDATE on a table with a hash index
	}
	switch {
	case kind <= 3:
		if g.cfg.Rich && r.Chance(0.5) {
			row, plan := richRow(r, ts, g.kg.fresh(ts.Name))
			return &Stmt{Kind: "insert", Table: ts.Name, Cols: colNames(ts), Rows: [][]any{row}, Plan: plan}
		}
		{
			row := sqlRow(r, ts, g.kg.fresh(ts.Name))
			st := &Stmt{Kind: "insert", Table: ts.Name, Cols: colNames(ts), Rows: [][]any{row}}
			for _, v := range row {
				switch x := v.(type) {
				case int32:
					st.Plan = st.Plan || x < 0
				case float32:
					st.Plan = st.Plan || x < 0
				}
			}
			return st
		}
	case kind <= 7:
		st := &Stmt{Kind: "update", Table: ts.Name, Where: genPredicate(r, ts, t, view)}
		if g.cfg.Rich && r.Chance(0.5) {
			st.Where = richPredicate(r, ts, view)
		}
		n := 1 + r.Intn(2)
		used := map[int]bool{}
		for i := 0; i < n; i++ {
			ci := 1 + r.Intn(len(ts.Cols)-1)
			if used[ci] {
				continue
			}
			used[ci] = true
			w := ts.Wide
			if r.Chance(0.3) {
				w *= 2
			}
			st.Set = append(st.Set, SetItem{ts.Cols[ci].Name, randVal(r, ts.Cols[ci].Type, w)})
		}
		return st
	default:
		return &Stmt{Kind: "delete", Table: ts.Name, Where: hashSafe(ts, genPredicate(r, ts, t, view))}
	}
}

func (g *sqlGen) next(e *Exec) Op {
	r, c := g.r, g.cfg
	t := r.Intn(c.Slots)
	sl := e.Slots[t]
	if sl == nil {
		if e.open() == 0 {
			switch {
			case r.Chance(c.PRestart):
				return Op{Kind: "restart-clean"}
			case r.Chance(c.PCrashRestart):
				return Op{Kind: "restart-crash"}
			case r.Chance(c.PDDL) && g.late < len(c.LateTables):
				g.late++
				return Op{Kind: "ddl", T: g.late - 1}
			case r.Chance(c.PStats):
				return Op{Kind: "stats"}
			case r.Chance(0.03):
				return Op{Kind: "checkpoint"}
			case r.Chance(0.25):
				if st := g.stmt(e, nil); !st.Plan {
					return Op{Kind: "auto", Stmt: st}
				}
			}
		}
		return Op{T: t, Kind: "begin"}
	}
	if r.Chance(0.3) {
		if r.Chance(c.PAbort) {
			return Op{T: t, Kind: "abort"}
		}
		return Op{T: t, Kind: "commit"}
	}
	return Op{T: t, Kind: "stmt", Stmt: g.stmt(e, sl.mt)}
}

// ---------------------------------------------------------------- the run

type SqlRun struct {
	openPanic  *PanicInfo
	Seed       uint64
	Cfg        SqlCfg
	Dir        string
	Ops        []Op
	S          *SUT
	E          *Exec
	Viol       []Violation
	Stats      map[string]int
	Infeasible string
	created    []TableSpec
	restarts   int
	sig        strings.Builder
	touched    map[string]bool // tables written since the last verified quiescent point
	diverged   bool            // heap and model disagree: nothing after this point can be attributed
	dead       bool            // the engine panicked: latches may be left locked, nothing more can be run on this instance
}

func (sr *SqlRun) stat(k string, n int) {
	if sr.Stats == nil {
		sr.Stats = map[string]int{}
	}
	sr.Stats[k] += n
}

func (sr *SqlRun) viol(prop, class, detail string, opIdx int) {
	sr.stat("viol:"+prop+":"+class, 1)
	sr.Viol = append(sr.Viol, Violation{Property: prop, Class: class, Detail: fmt.Sprintf("op %d: %s", opIdx, detail), Faults: []Fault{{Kind: "at-op", After: opIdx}}})
}

func (sr *SqlRun) minFrames() int {
	cols := 0
	for _, t := range sr.Cfg.Tables {
		cols += len(t.Cols)
	}
	for _, t := range sr.Cfg.LateTables {
		cols += len(t.Cols)
	}
	n := 3*cols + 8 // three permanently pinned pages per skip-list index + head-room for a statement
	// the embedded B-tree keeps the pages of its own page pool (up to HASH_TABLE_ENTRY_CHAIN_LEN *
	// MaxTxnThreadNum * 2 = 96 per index) pinned in the buffer pool: by design it needs a large pool
	for _, t := range append(append([]TableSpec{}, sr.Cfg.Tables...), sr.Cfg.LateTables...) {
		for _, k := range t.IdxKinds {
			if k == "btree" {
				n += 100
			}
			if k == "hash" {
				n += 16 // header + block pages of the linear probe table
			}
		}
	}
	return n
}

// heapRows: full scan with row ids.
type heapRow struct {
	rid  page.RID
	vals []any
}

func (s *SUT) ScanHeapRIDs(table string) (rows []heapRow, res ExecResult) {
	if s.Dead {
		res.Err = errDead
		return
	}
	defer s.catch(&res.Panic)
	tm := s.Cat.GetTableByName(table)
	if tm == nil {
		res.Err = fmt.Errorf("table %s not in catalog", table)
		return
	}
	txn := s.Shi.GetTransactionManager().Begin(nil)
	it := tm.Table().Iterator(txn)
	sc := tm.Schema()
	for tpl := it.Current(); !it.End(); tpl = it.Next() {
		if tpl == nil {
			break
		}
		vals := make([]any, sc.GetColumnCount())
		for i := uint32(0); i < sc.GetColumnCount(); i++ {
			v := tpl.GetValue(sc, i)
			vals[i] = valueToAny(&v)
		}
		rows = append(rows, heapRow{*tpl.GetRID(), vals})
	}
	s.Shi.GetTransactionManager().Commit(s.Cat, txn)
	return
}

func valueToAny(v *types.Value) any {
	if v.IsNull() {
		return nil
	}
	switch v.ValueType() {
	case types.Integer:
		return v.ToInteger()
	case types.Float:
		return v.ToFloat()
	case types.Varchar:
		return v.ToVarchar()
	case types.Boolean:
		return v.ToBoolean()
	}
	return nil
}

func anyToValue(v any, t ColType) types.Value {
	switch x := v.(type) {
	case int32:
		return types.NewInteger(x)
	case float32:
		return types.NewFloat(x)
	case string:
		return types.NewVarchar(x)
	case bool:
		return types.NewBoolean(x)
	}
	nv := types.NewNull()
	return nv
}

// checkIndexes is M-IDX: every index of every table against the heap (not against the model).
func (sr *SqlRun) checkIndexes(opIdx int, where string) {
	s := sr.S
	if sr.dead || s.Dead {
		return
	}
	for _, ts := range sr.created {
		tm := s.Cat.GetTableByName(ts.Name)
		if tm == nil {
			continue
		}
		heap, res := s.ScanHeapRIDs(ts.Name)
		if !res.OK() {
			sr.viol("C07", "heap-scan-failed", fmt.Sprintf("%s: %s: %v %v", where, ts.Name, res.Err, res.Panic), opIdx)
			continue
		}
		sc := tm.Schema()
		for ci := range ts.Cols {
			if ci >= int(tm.GetColumnNum()) || ci >= len(tm.Indexes()) {
				continue // schema differs from the created one: reported by the catalog check
			}
			idx := tm.GetIndex(ci)
			if idx == nil || sr.dead {
				continue
			}
			sr.stat("midx_index_checks", 1)
			func() {
				var pi *PanicInfo
				defer func() {
					if pi != nil {
						sr.dead = true
						sr.viol("C07", "index-scan-panic", fmt.Sprintf("%s: %s.%s: %s", where, ts.Name, ts.Cols[ci].Name, pi.String()), opIdx)
					}
				}()
				defer s.catch(&pi)
				txn := s.Shi.GetTransactionManager().Begin(nil)
				defer s.Shi.GetTransactionManager().Commit(s.Cat, txn)
				// expected: value -> sorted rid list
				want := map[string][]string{}
				var keys []any
				seen := map[string]bool{}
				for _, hr := range heap {
					cv := canonVal(hr.vals[ci])
					want[cv] = append(want[cv], fmt.Sprint(hr.rid))
					if !seen[cv] {
						seen[cv] = true
						keys = append(keys, hr.vals[ci])
					}
				}
				// absent probes
				probe := newRng(simrt.Mix(sr.Seed, uint64(opIdx*131+ci)))
				for i := 0; i < 3; i++ {
					v := randVal(probe, ts.Cols[ci].Type, ts.Wide)
					if !seen[canonVal(v)] {
						seen[canonVal(v)] = true
						keys = append(keys, v)
					}
				}
				for _, k := range keys {
					if k == nil {
						continue
					}
					val := anyToValue(k, ts.Cols[ci].Type)
					keyT := tuple.GenTupleForIndexSearch(sc, uint32(ci), &val)
					rids := idx.ScanKey(keyT, txn)
					var got []string
					for _, rd := range rids {
						got = append(got, fmt.Sprint(rd))
					}
					sort.Strings(got)
					w := append([]string{}, want[canonVal(k)]...)
					sort.Strings(w)
					sr.stat("midx_point_lookups", 1)
					if !sameStrings(w, got) {
						sr.viol("C07", "index-point-lookup", fmt.Sprintf("%s: %s.%s key %s: index returns rids %v, heap has %v", where, ts.Name, ts.Cols[ci].Name, canonVal(k), got, w), opIdx)
						return
					}
				}
				// full ordered scan
				itr := idx.GetRangeScanIterator(nil, nil, txn)
				if itr == nil {
					return // hash index: no ordered scan
				}
				var got []string
				n := 0
				for done, _, _, rid := itr.Next(); !done; done, _, _, rid = itr.Next() {
					got = append(got, fmt.Sprint(*rid))
					n++
					if n > len(heap)+1000 {
						break
					}
				}
				// expected order: by column value, ties any order -> compare as multiset and check ordering by value
				var all []string
				for _, hr := range heap {
					if hr.vals[ci] != nil {
						all = append(all, fmt.Sprint(hr.rid))
					}
				}
				sort.Strings(all)
				g2 := append([]string{}, got...)
				sort.Strings(g2)
				sr.stat("midx_full_scans", 1)
				if !sameStrings(all, g2) {
					sr.viol("C07", "index-full-scan", fmt.Sprintf("%s: %s.%s: full index scan returns %d entries, heap has %d rows: %s", where, ts.Name, ts.Cols[ci].Name, len(got), len(all), diffStrings(all, g2)), opIdx)
					return
				}
				// order check
				byRid := map[string]any{}
				for _, hr := range heap {
					byRid[fmt.Sprint(hr.rid)] = hr.vals[ci]
				}
				for i := 1; i < len(got); i++ {
					if c, ok := cmpVals(byRid[got[i-1]], byRid[got[i]]); ok && c > 0 {
						sr.viol("C07", "index-scan-order", fmt.Sprintf("%s: %s.%s: entry %d (%v) before entry %d (%v)", where, ts.Name, ts.Cols[ci].Name, i-1, byRid[got[i-1]], i, byRid[got[i]]), opIdx)
						return
					}
				}
			}()
		}
	}
}

// checkPages is M-PAGE: layout invariants of every heap page of every table (read through the pool).
func (sr *SqlRun) checkPages(opIdx int, where string) {
	s := sr.S
	if sr.dead || s.Dead {
		return
	}
	bpm := s.Shi.GetBufferPoolManager()
	for _, ts := range sr.created {
		tm := s.Cat.GetTableByName(ts.Name)
		if tm == nil {
			continue
		}
		pid := tm.Table().GetFirstPageID()
		for n := 0; pid.IsValid() && n < 10000; n++ {
			pg := bpm.FetchPage(pid)
			if pg == nil {
				break
			}
			d := pg.Data()[:]
			msg := pageLayoutCheck(d)
			next := types.PageID(int32(binary.LittleEndian.Uint32(d[12:16])))
			bpm.UnpinPage(pid, false)
			sr.stat("mpage_pages_checked", 1)
			if msg != "" {
				sr.viol("C15", "page-layout", fmt.Sprintf("%s: table %s page %d: %s", where, ts.Name, pid, msg), opIdx)
				return
			}
			pid = next
		}
	}
}

// pageLayoutCheck verifies the slotted-page invariants on raw bytes.
func pageLayoutCheck(d []byte) string {
	fsp := binary.LittleEndian.Uint32(d[16:])
	cnt := binary.LittleEndian.Uint32(d[20:])
	if fsp > pageSize {
		return fmt.Sprintf("free space pointer %d beyond page", fsp)
	}
	slotEnd := 24 + 8*cnt
	if slotEnd > fsp {
		return fmt.Sprintf("slot array end %d overlaps row area starting at %d", slotEnd, fsp)
	}
	type seg struct{ off, size uint32 }
	var segs []seg
	for i := uint32(0); i < cnt; i++ {
		off := binary.LittleEndian.Uint32(d[24+8*i:])
		sz := binary.LittleEndian.Uint32(d[28+8*i:])
		if off == 0 && sz == 0 {
			continue
		}
		size := sz &^ (1 << 31)
		if size == 0 || off == 0 {
			return fmt.Sprintf("slot %d: offset %d size %d (half-empty slot)", i, off, sz)
		}
		if off < fsp || off+size > pageSize {
			return fmt.Sprintf("slot %d: row [%d,%d) outside row area [%d,%d)", i, off, off+size, fsp, pageSize)
		}
		segs = append(segs, seg{off, size})
	}
	sort.Slice(segs, func(i, j int) bool { return segs[i].off < segs[j].off })
	pos := fsp
	for _, sg := range segs {
		if sg.off != pos {
			if sg.off < pos {
				return fmt.Sprintf("rows overlap at offset %d", sg.off)
			}
			return fmt.Sprintf("gap [%d,%d) inside the row area (free space not accounted for)", pos, sg.off)
		}
		pos += sg.size
	}
	if pos != pageSize {
		return fmt.Sprintf("row area ends at %d, not at the page end", pos)
	}
	return ""
}

// observable: answers of a battery of queries through scan and index paths (C03 / C09).
func (sr *SqlRun) observable(opIdx int) (map[string][]string, string) {
	out := map[string][]string{}
	s := sr.S
	mview := sr.E.M.Begin()
	for ti := range sr.created {
		ts := &sr.created[ti]
		rows, _, res := s.ScanHeap(ts.Name)
		if res.Panic != nil {
			sr.dead = true
		}
		if !res.OK() {
			return nil, fmt.Sprintf("scan of %s failed: %v %v aborted=%v", ts.Name, res.Err, res.Panic, res.Aborted)
		}
		out["scan:"+ts.Name] = canonRows(rows)
		mt := sr.E.M.Table(ts.Name)
		// per column: point queries for up to 6 present values + 2 absent, 2 ranges
		pr := newRng(simrt.Mix(sr.Seed, uint64(opIdx)*977+uint64(len(ts.Name))))
		for ci, col := range ts.Cols {
			var vals []any
			seen := map[string]bool{}
			for _, r := range mt.Rows {
				cv := canonVal(r.Vals[ci])
				if r.Vals[ci] != nil && !seen[cv] {
					seen[cv] = true
					vals = append(vals, r.Vals[ci])
				}
			}
			for len(vals) > 6 {
				i := pr.Intn(len(vals))
				vals = append(vals[:i], vals[i+1:]...)
			}
			vals = append(vals, randVal(pr, col.Type, ts.Wide), randVal(pr, col.Type, ts.Wide))
			var qs []*Stmt
			for _, v := range vals {
				qs = append(qs, &Stmt{Kind: "select", Table: ts.Name, Cols: colNames(ts), Where: hashSafe(ts, &Pred{Col: col.Name, Op: "=", Val: v})})
			}
			if (col.Type == TInt || col.Type == TFloat) && col.Name != hashCol(ts) {
				a, b := randVal(pr, col.Type, 0), randVal(pr, col.Type, 0)
				if c, ok := cmpVals(a, b); ok && c > 0 {
					a, b = b, a
				}
				qs = append(qs, &Stmt{Kind: "select", Table: ts.Name, Cols: colNames(ts), Where: &Pred{Logic: "AND", L: &Pred{Col: col.Name, Op: ">=", Val: a}, R: &Pred{Col: col.Name, Op: "<=", Val: b}}})
				qs = append(qs, &Stmt{Kind: "select", Table: ts.Name, Cols: colNames(ts), Where: &Pred{Col: col.Name, Op: ">", Val: a}})
			}
			for _, q := range qs {
				res := s.TxnSQL(q.SQL())
				sr.stat("battery_queries", 1)
				if res.Panic != nil {
					sr.dead = true
				}
				if !res.OK() {
					return nil, fmt.Sprintf("query %s failed: %v %v", q.SQL(), res.Err, res.Panic)
				}
				out[q.SQL()] = canonRows(res.Rows)
				out["plan:"+q.SQL()] = []string{res.Plan}
				mrows, _ := mview.Apply(q)
				out["model:"+q.SQL()] = canonRows(mrows)
			}
		}
	}
	if w := wrongAnswers(out); len(w) > 0 {
		sr.viol("C06", "query-answer", w[0], opIdx)
		if sr.restarts > 0 && (flProp == "C09" || flProp == "C10") {
			// after a restart a wrong answer belongs to the restart property under test as well
			sr.viol(flProp, "query-answer-after-restart", w[0], opIdx)
		}
	}
	return out, ""
}

func diffObservable(a, b map[string][]string) string {
	var ks []string
	for k := range a {
		ks = append(ks, k)
	}
	sort.Strings(ks)
	for _, k := range ks {
		if strings.HasPrefix(k, "model:") || strings.HasPrefix(k, "plan:") {
			continue
		}
		if pa, ok := a["plan:"+k]; ok && !sameStrings(pa, b["plan:"+k]) {
			continue // answered by a different plan: a difference would not show that stored state changed
		}
		if m, ok := a["model:"+k]; ok && !sameStrings(m, a[k]) {
			continue // already wrong before (a query-answer defect, reported under C06), not caused by what happened in between
		}
		if !sameStrings(a[k], b[k]) {
			return fmt.Sprintf("%s: before %d rows, after %d rows: %s", k, len(a[k]), len(b[k]), diffStrings(a[k], b[k]))
		}
	}
	return ""
}

// wrongAnswers: battery queries whose engine answer differs from the model (C06 observations).
func wrongAnswers(a map[string][]string) []string {
	var out []string
	for k, v := range a {
		if strings.HasPrefix(k, "plan:") {
			continue
		}
		if m, ok := a["model:"+k]; ok && !sameStrings(m, v) {
			out = append(out, fmt.Sprintf("%s: %s", k, diffStrings(m, v)))
		}
	}
	sort.Strings(out)
	return out
}

// modelObservable: what the battery must answer according to the model.
func (sr *SqlRun) modelCheckObservable(obs map[string][]string) string {
	var ks []string
	for k := range obs {
		ks = append(ks, k)
	}
	sort.Strings(ks)
	snap := sr.E.M.Snapshot()
	for _, k := range ks {
		if strings.HasPrefix(k, "scan:") {
			tn := strings.TrimPrefix(k, "scan:")
			if !sameStrings(snap[tn], obs[k]) {
				return fmt.Sprintf("table %s: %s", tn, diffStrings(snap[tn], obs[k]))
			}
		}
	}
	return ""
}

func (sr *SqlRun) createTable(ts TableSpec, opIdx int) bool {
	var res ExecResult
	if len(ts.IdxKinds) > 0 {
		res = sr.S.CreateTableAPI(&ts)
		sr.stat("tables_with_btree_or_unique_index", 1)
		// (pin accounting per statement is about heap and skip-list pages: the embedded B-tree pins the
		// pages of its own pool for as long as they stay in it)
		sr.E.PinCheck = false
	} else {
		res = sr.S.AutoSQL(createTableSQL(&ts))
	}
	if !res.OK() {
		sr.Infeasible = fmt.Sprintf("create table %s: %v %v", ts.Name, res.Err, res.Panic)
		return false
	}
	sr.E.M.AddTable(ts.Name, ts.Cols)
	sr.created = append(sr.created, ts)
	return true
}

// catalogCheck (C10): every created table reachable by name, own schema, distinct ids and first pages.
func (sr *SqlRun) catalogCheck(opIdx int, where string) {
	var specs []*TableSpec
	for i := range sr.created {
		specs = append(specs, &sr.created[i])
	}
	for _, cv := range catalogViolations(sr.S, specs, where) {
		sr.viol("C10", cv[0], cv[1], opIdx)
	}
}

// catalogViolations: every created table is reachable by name with its schema, and no two tables
// share an object id or a first page. Returns (class, detail) pairs.
func catalogViolations(su *SUT, specs []*TableSpec, where string) (out [][2]string) {
	defer func() {
		if r := recover(); r != nil {
			out = append(out, [2]string{"catalog-panic", fmt.Sprintf("%s: %v", where, r)})
		}
	}()
	viol := func(class, detail string) { out = append(out, [2]string{class, detail}) }
	oids := map[uint32]string{}
	firsts := map[int32]string{}
	for _, ts := range specs {
		tm := su.Cat.GetTableByName(ts.Name)
		if tm == nil {
			viol("table-missing", fmt.Sprintf("%s: table %s is not reachable by name", where, ts.Name))
			continue
		}
		sc := tm.Schema()
		if int(sc.GetColumnCount()) != len(ts.Cols) {
			viol("schema-changed", fmt.Sprintf("%s: table %s has %d columns, created with %d", where, ts.Name, sc.GetColumnCount(), len(ts.Cols)))
			continue
		}
		for i, c := range ts.Cols {
			cn := sc.GetColumn(uint32(i)).GetColumnName()
			if !strings.HasSuffix(cn, "."+c.Name) && cn != c.Name {
				viol("schema-changed", fmt.Sprintf("%s: table %s column %d is %q, created as %q", where, ts.Name, i, cn, c.Name))
			}
			wantT := map[ColType]types.TypeID{TInt: types.Integer, TFloat: types.Float, TVarchar: types.Varchar, TBool: types.Boolean}[c.Type]
			if sc.GetColumn(uint32(i)).GetType() != wantT {
				viol("schema-changed", fmt.Sprintf("%s: table %s column %s changed type", where, ts.Name, c.Name))
			}
			wantK := ""
			if i < len(ts.IdxKinds) {
				wantK = ts.IdxKinds[i]
			}
			if gotK := indexKindName(sc.GetColumn(uint32(i)).IndexKind()); gotK != wantK || !sc.GetColumn(uint32(i)).HasIndex() {
				viol("schema-changed", fmt.Sprintf("%s: table %s column %s: index kind %q (has index: %v), created as %q", where, ts.Name, c.Name, gotK, sc.GetColumn(uint32(i)).HasIndex(), wantK))
			}
		}
		if o, dup := oids[tm.OID()]; dup {
			viol("identifier-shared", fmt.Sprintf("%s: tables %s and %s share object id %d", where, o, ts.Name, tm.OID()))
		}
		oids[tm.OID()] = ts.Name
		fp := int32(tm.Table().GetFirstPageID())
		if o, dup := firsts[fp]; dup {
			viol("storage-shared", fmt.Sprintf("%s: tables %s and %s share first page %d", where, o, ts.Name, fp))
		}
		firsts[fp] = ts.Name
		// by-id lookup must return the same table
		if t2 := su.Cat.GetTableByOID(tm.OID()); t2 == nil || !strings.EqualFold(*t2.GetTableName(), ts.Name) {
			viol("identifier-shared", fmt.Sprintf("%s: object id %d of table %s resolves to another table", where, tm.OID(), ts.Name))
		}
	}
	return out
}

// quiescentChecks: run when no transaction is open.
func (sr *SqlRun) quiescentChecks(opIdx int, where string, afterRestart string) {
	progressTick()
	if sr.dead {
		return
	}
	// heap vs model
	for _, d := range sr.E.VerifyCommitted(where) {
		if strings.HasPrefix(d.Class, "scan-panic") {
			sr.dead = true
		}
		prop, class := "C06", "table-contents"
		switch afterRestart {
		case "clean":
			prop, class = "C09", "table-contents-after-clean-restart"
		case "crash":
			prop, class = "C01", "table-contents-after-crash-restart"
		}
		if sr.Cfg.Slots > 1 && afterRestart == "" {
			prop = "C04"
		}
		// a table that no statement wrote since the last verified point changed: writing into one
		// table disturbed another (C10)
		if d.Table != "" && afterRestart == "" && !sr.touched[d.Table] {
			sr.viol("C10", "untouched-table-changed", d.Detail, opIdx)
		}
		sr.viol(prop, class, d.Detail, opIdx)
		sr.diverged = true
	}
	sr.touched = map[string]bool{}
	sr.catalogCheck(opIdx, where)
	sr.checkIndexes(opIdx, where)
	sr.checkPages(opIdx, where)
}

// rowsOfOtherTable: an unexpected row of table d.Table is exactly a committed row of another
// table with a different schema width or name (cross-table contamination, a C10 matter).
func (sr *SqlRun) rowsOfOtherTable(d Divergence) bool {
	if d.Table == "" || len(d.Extra) == 0 {
		return false
	}
	snap := sr.E.M.Snapshot()
	own := map[string]bool{}
	for _, sn := range sr.E.Snaps {
		for _, r := range sn[d.Table] {
			own[r] = true
		}
	}
	for tn, rows := range snap {
		if tn == d.Table {
			continue
		}
		for _, r := range rows {
			for _, x := range d.Extra {
				if x == r && !own[x] {
					return true
				}
			}
		}
	}
	return false
}

func (sr *SqlRun) open() bool {
	s, pi := OpenSUT(sr.Dir+"/db", sr.Cfg.Frames)
	sr.openPanic = pi
	if pi != nil {
		return false
	}
	sr.S = s
	if sr.E != nil {
		sr.E.S = s
	}
	s.WarmIndexes()
	return true
}

func (sr *SqlRun) execute(ops []Op, gen *sqlGen) {
	cfg := &sr.Cfg
	genNegInts = cfg.Rich && sr.Seed%4 == 0 // negative literals (known finding) in a quarter of the rich runs
	genNulls = cfg.Nulls
	removeDBFiles(sr.Dir + "/db")
	backgroundOff()
	simrt.SeedRun(sr.Seed, cfg.MapPermute)
	if cfg.Frames < sr.minFrames() {
		cfg.Frames = sr.minFrames()
	}
	s, pi := OpenSUT(sr.Dir+"/db", cfg.Frames)
	if pi != nil {
		sr.Infeasible = "open: " + pi.String()
		return
	}
	sr.S = s
	sr.E = NewExec(s, &Model{})
	sr.E.CheckSelects = true
	sr.E.PinCheck = true
	for _, ts := range cfg.Tables {
		if !sr.createTable(ts, -1) {
			s.Crash()
			return
		}
	}
	setup := newRng(simrt.Mix(sr.Seed, 22))
	kg := &keyGen{}
	if gen != nil {
		kg = &gen.kg
	}
	for i := 0; i < cfg.InitRows; i++ {
		ts := &cfg.Tables[i%len(cfg.Tables)]
		st := &Stmt{Kind: "insert", Table: ts.Name, Cols: colNames(ts), Rows: [][]any{sqlRow(setup, ts, kg.fresh(ts.Name))}}
		sr.E.Run(-1, Op{Kind: "auto", Stmt: st})
		if sr.E.Panic != nil {
			sr.Infeasible = "setup insert: " + sr.E.Panic.String()
			s.Crash()
			return
		}
	}
	sr.E.Outcomes = nil
	sr.E.PinViol = nil
	n := cfg.NOps
	if ops != nil {
		n = len(ops)
	}
	var preAbort map[int]map[string][]string
	preAbortCommits := map[int]int{}
	if cfg.AbortFocus {
		preAbort = map[int]map[string][]string{}
	}
	lateCreated := 0
	sr.touched = map[string]bool{}
	for i := 0; i < n && !sr.dead && !sr.S.Dead && !sr.diverged; i++ {
		var op Op
		if ops != nil {
			op = ops[i]
		} else {
			op = gen.next(sr.E)
			sr.Ops = append(sr.Ops, op)
		}
		sr.sig.WriteString(op.Kind)
		if op.Stmt != nil {
			sr.sig.WriteString(":" + op.Stmt.Kind)
		}
		e := sr.E
		switch op.Kind {
		case "restart-clean", "restart-crash":
			if e.open() > 0 {
				continue
			}
			sr.quiescentChecks(i, "before "+op.Kind, "")
			if sr.diverged || sr.dead {
				continue
			}
			var before map[string][]string
			if op.Kind == "restart-clean" {
				var msg string
				before, msg = sr.observable(i)
				if msg != "" {
					sr.viol("C06", "battery-failed", msg, i)
					if sr.restarts > 0 && (flProp == "C09" || flProp == "C10") {
						sr.viol(flProp, "query-refused-after-restart", msg, i)
					}
					before = nil
				}
				if pi := sr.S.Shutdown(); pi != nil {
					sr.viol("C09", "shutdown-panic", pi.String(), i)
					return
				}
				sr.stat("fault:clean_restart", 1)
			} else {
				sr.S.Crash()
				sr.stat("fault:crash_restart_at_quiescence", 1)
			}
			sr.restarts++
			if !sr.open() {
				prop := "C09"
				if op.Kind == "restart-crash" {
					prop = "C01"
				}
				sr.viol(prop, "restart-panic", sr.openPanic.String(), i)
				return
			}
			kind := "clean"
			if op.Kind == "restart-crash" {
				kind = "crash"
			}
			if before != nil {
				after, msg := sr.observable(i)
				if msg != "" {
					sr.viol("C09", "query-refused-after-clean-restart", msg, i)
				} else if d := diffObservable(before, after); d != "" {
					sr.viol("C09", "answer-changed-by-clean-restart", d, i)
				}
			}
			sr.quiescentChecks(i, "after "+op.Kind, kind)
		case "ddl":
			if e.open() > 0 || op.T >= len(cfg.LateTables) || lateCreated > op.T {
				continue
			}
			lateCreated = op.T + 1
			if !sr.createTable(cfg.LateTables[op.T], i) {
				return
			}
			sr.stat("ddl_mid_history", 1)
			sr.quiescentChecks(i, "after create table", "")
		default:
			if cfg.AbortFocus && op.Kind == "begin" && e.open() == 0 {
				delete(preAbort, op.T)
				obs, msg := sr.observable(i)
				if msg == "" {
					preAbort[op.T] = obs
					preAbortCommits[op.T] = e.Commits
				}
			} else if cfg.AbortFocus && op.Kind == "begin" {
				delete(preAbort, op.T) // another transaction is open: no snapshot can be taken
			}
			wasOpen := e.Slots[op.T] != nil
			nAb := e.Aborts
			if op.Stmt != nil && op.Stmt.Kind != "select" {
				sr.touched[op.Stmt.Table] = true
			}
			if !e.Run(i, op) {
				prop := "C06"
				if op.Kind == "abort" {
					prop = "C03"
				} else if op.Stmt != nil && op.Stmt.Join != nil {
					prop = "C11"
				}
				if sr.restarts > 0 && (flProp == "C09" || flProp == "C10") {
					// the reopened database must accept further statements: a panic after a restart belongs
					// to the restart property under test (it would otherwise only be counted as another
					// property's observation)
					sr.viol(flProp, "statement-panic-after-restart", fmt.Sprintf("%s %s: %s", op.Kind, opSQL(op), e.Panic.String()), i)
				} else if (flProp == "C03" || flProp == "C07" || flProp == "C14") && prop != flProp {
					// these checks run workloads (two open transactions, abort-heavy, other index kinds, joins
					// in a small pool) that the C06/C11 checks do not: an engine panic on a supported statement
					// in such a workload is reported by the running check as well
					sr.viol(flProp, "statement-panic", fmt.Sprintf("%s %s: %s", op.Kind, opSQL(op), e.Panic.String()), i)
				}
				sr.viol(prop, "statement-panic", fmt.Sprintf("%s %s: %s", op.Kind, opSQL(op), e.Panic.String()), i)
				sr.dead = true
				continue
			}
			// an abort happened (explicit or by a refused statement) and nothing else is open: C03 oracle
			if cfg.AbortFocus && wasOpen && e.Aborts > nAb && e.open() == 0 {
				// the snapshot is comparable only if nothing was committed since it was taken
				if pre := preAbort[op.T]; pre != nil && preAbortCommits[op.T] == e.Commits {
					post, msg := sr.observable(i)
					sr.stat("abort_snapshots_compared", 1)
					if msg != "" {
						sr.viol("C03", "query-refused-after-abort", msg, i)
					} else if d := diffObservable(pre, post); d != "" {
						sr.viol("C03", "state-changed-by-aborted-txn", d, i)
					}
				}
				sr.checkIndexes(i, "after abort")
				sr.checkPages(i, "after abort")
				for _, pv := range sr.pinsAfterAbort() {
					sr.viol("C14", "pin-leak-after-abort", pv, i)
				}
			}
			if e.open() == 0 && (op.Kind == "commit" || op.Kind == "abort" || op.Kind == "auto") {
				if setup.Chance(0.3) {
					sr.quiescentChecks(i, "quiescent point", "")
				} else {
					sr.heapCheck(i, "quiescent point")
				}
			}
		}
		if i < len(sr.E.Outcomes) {
			sr.sig.WriteString("=" + sr.E.Outcomes[len(sr.E.Outcomes)-1].Status)
		}
		sr.sig.WriteByte(',')
	}
	if sr.dead || sr.S.Dead || sr.diverged {
		sr.dead = sr.dead || sr.S.Dead
		sr.collect()
		if !sr.dead {
			sr.S.Crash()
		}
		return
	}
	// end of history: close open transactions, final checks
	for t := range sr.E.Slots {
		sr.E.Run(n, Op{T: t, Kind: "commit"})
	}
	sr.quiescentChecks(n, "end of history", "")
	sr.collect()
	if !sr.dead {
		sr.S.Crash()
	}
}

func (sr *SqlRun) collect() {
	cfg := &sr.Cfg
	for _, d := range sr.E.Div {
		prop := "C06"
		if cfg.Slots > 1 {
			prop = "C04"
		}
		if d.Join {
			prop = "C11"
			d.Class = "join-answer"
		}
		sr.viol(prop, d.Class, d.Detail, d.OpIndex)
	}
	for _, pv := range sr.E.PinViol {
		sr.viol("C14", "pin-leak", pv, -1)
	}
}

func (sr *SqlRun) pinsAfterAbort() []string { return nil }

// heapCheck: the cheap part of the quiescent checks (heap vs model), after every commit.
func (sr *SqlRun) heapCheck(opIdx int, where string) {
	if sr.dead || sr.S.Dead {
		return
	}
	for _, d := range sr.E.VerifyCommitted(where) {
		if strings.HasPrefix(d.Class, "scan-panic") {
			sr.dead = true
		}
		prop := "C06"
		if sr.Cfg.Slots > 1 {
			prop = "C04"
		}
		if d.Table != "" && !sr.touched[d.Table] {
			sr.viol("C10", "untouched-table-changed", d.Detail, opIdx)
		}
		sr.viol(prop, "table-contents", d.Detail, opIdx)
		sr.diverged = true
	}
	sr.touched = map[string]bool{}
}

func opSQL(op Op) string {
	if op.Stmt != nil {
		return op.Stmt.SQL()
	}
	return ""
}

// ---------------------------------------------------------------- driver

func init() {
	drivers["sqlsim"] = runSqlSim
	replayers["sqlsim"] = replaySqlSim
}

func newSqlRun(seed uint64, cfg SqlCfg, tag string) *SqlRun {
	dir := fmt.Sprintf("%s/%s", flScratch, tag)
	os.MkdirAll(dir, 0755)
	return &SqlRun{Seed: seed, Cfg: cfg, Dir: dir}
}

func runSqlSim(run int, seed uint64) RunReport {
	rep := RunReport{}
	wr := newRng(simrt.Mix(seed, 1))
	cfgProp := flProp
	if v := os.Getenv("VERIF_SQL_CFG_PROP"); v != "" {
		cfgProp = v // (diagnosis: the configuration of another property's runs, reported under -prop)
	}
	cfg := genSqlCfg(wr, cfgProp, flTier)
	sr := newSqlRun(seed, cfg, "q")
	defer os.RemoveAll(sr.Dir)
	liveCfg, liveOps = &sr.Cfg, &sr.Ops
	var rec *disk.SimRecorder
	if os.Getenv("VERIF_TRACE") != "" {
		simrt.TraceOrder = true
		rec = &disk.SimRecorder{}
		disk.SimRec = rec
	}
	sr.execute(nil, &sqlGen{r: wr, cfg: &sr.Cfg})
	if rec != nil {
		disk.SimRec = nil
		for i := range rec.Events {
			ev := &rec.Events[i]
			fmt.Fprintf(os.Stderr, "TRACE %d %c page=%d len=%d %s %s\n", i, ev.Kind, ev.Page, len(ev.Data), ev.Mark, shapeSig(string(ev.Data)))
		}
		fmt.Fprintf(os.Stderr, "TRACE reads=%d allocs=%d logreads=%d\n", rec.Reads, rec.Allocs, rec.LogReads)
	}
	if sr.Infeasible != "" {
		rep.Outcome = "infeasible"
		rep.Infeasible = sr.Infeasible
		return rep
	}
	e := sr.E
	sr.stat("ops", len(sr.Ops))
	sr.stat("commits", e.Commits)
	sr.stat("aborts", e.Aborts)
	sr.stat("conflict_aborts", e.ConflictAborts)
	sr.stat("statements", e.StmtCount)
	sr.stat("restarts", sr.restarts)
	sr.stat("pin_vectors_compared", e.PinChecks)
	sr.stat("pin_count_growth_on_already_pinned_page", e.PinGrowth)
	for k, n := range e.PlanShapes {
		sr.stat("plan:"+k, n)
	}
	// environment replication (C06 / C11): the same operations in a second environment (other map
	// order, other pool size, statistics refreshed before every SELECT or never) must give the
	// reference answers too; statements answered by two different plans are counted
	var extraViol []Violation
	var envB *SqlRun
	if (flProp == "C06" || flProp == "C11") && !sr.dead && !sr.diverged {
		cfgB := sr.Cfg
		cfgB.MapPermute = !cfgB.MapPermute
		if cfgB.Frames >= 64 {
			cfgB.Frames = 0
		} else {
			cfgB.Frames = 64
		}
		var opsB []Op
		mode := wr.Intn(2)
		for _, op := range sr.Ops {
			if op.Kind == "stats" {
				continue
			}
			if mode == 0 && op.Stmt != nil && op.Stmt.Kind == "select" && (op.Kind == "auto") {
				opsB = append(opsB, Op{Kind: "stats"})
			}
			opsB = append(opsB, op)
		}
		envB = newSqlRun(seed, cfgB, "qb")
		envB.Ops = opsB
		liveCfg, liveOps = &envB.Cfg, &envB.Ops
		envB.execute(opsB, nil)
		os.RemoveAll(envB.Dir)
		if envB.Infeasible == "" {
			sr.stat("env_replications", 1)
			// what the simulator varied between the two executions (evidence: fault_kinds_fired)
			sr.stat("fault:env_map_order_flipped", 1)
			sr.stat("fault:env_pool_size_changed", 1)
			if mode == 0 {
				sr.stat("fault:env_statistics_refreshed_before_every_select", 1)
			} else {
				sr.stat("fault:env_statistics_never_refreshed", 1)
			}
			extraViol = envB.Viol
			// compare plans statement by statement (same statements, stats ops aside)
			pa, pb := sr.E.PlanByStmt, envB.E.PlanByStmt
			for sql, a := range pa {
				if b, ok := pb[sql]; ok {
					sr.stat("statements_in_two_environments", 1)
					if a != b {
						sr.stat("statements_answered_by_two_plans", 1)
					}
				}
			}
			for k, n := range envB.E.PlanShapes {
				sr.stat("plan:"+k, n)
			}
		}
	}
	rep.Stats = sr.Stats
	rep.Sig = shapeSig(sr.sig.String())
	rep.Nontrivial = e.StmtCount+e.Commits > 0
	rep.EventHash = shapeSig(sr.sig.String(), fmt.Sprint(e.Outcomes), fmt.Sprint(sr.Viol))
	opsJSON, _ := marshalOps(sr.Ops)
	rep.Sample = map[string]any{"cfg": sr.Cfg, "ops": json.RawMessage(opsJSON)}
	seen := map[string]bool{}
	other := map[string]int{}
	report := func(src *SqlRun, v Violation) {
		if v.Property != flProp {
			other[v.Property+":"+v.Class]++
			if os.Getenv("VERIF_PRINT_OTHER") != "" {
				fmt.Fprintf(os.Stderr, "OTHER %s %s %s\n", v.Property, v.Class, v.Detail)
			}
			return
		}
		if seen[v.Key()] {
			return
		}
		seen[v.Key()] = true
		oj, _ := marshalOps(src.Ops)
		v.Features = sqlFeatures(&src.Cfg, src.Ops)
		rf := ReplayFile{Property: v.Property, Driver: "sqlsim", Seed: seed, Tier: flTier, Cfg: mustJSON(src.Cfg), Ops: oj, Faults: v.Faults, Violation: v, OpsCount: len(src.Ops)}
		if len(seen) <= 2 && mayMinimise() {
			if m := minimiseSql(src, v); m != nil {
				rf = *m
			}
		}
		rep.Viol = append(rep.Viol, rf)
	}
	for _, v := range sr.Viol {
		report(sr, v)
	}
	for _, v := range extraViol {
		report(envB, v)
	}
	if len(other) > 0 {
		rep.Extra = map[string]any{"other_property_observations": other}
	}
	rep.Outcome = "ok"
	if len(rep.Viol) > 0 {
		rep.Outcome = "violation"
	}
	return rep
}

func reproduceSql(seed uint64, cfg SqlCfg, ops []Op, want Violation, tag string) *Violation {
	sr := newSqlRun(seed, cfg, tag)
	defer os.RemoveAll(sr.Dir)
	sr.execute(ops, nil)
	if flVerbose && sr.E != nil {
		for q, pl := range sr.E.PlanByStmt {
			fmt.Fprintf(os.Stderr, "PLAN %s\n     %s\n", q, pl)
		}
		for _, v := range sr.Viol {
			fmt.Fprintf(os.Stderr, "VIOL %s %s %s\n", v.Property, v.Class, v.Detail)
		}
	}
	if sr.Infeasible != "" {
		return nil
	}
	for i := range sr.Viol {
		if sr.Viol[i].Key() == want.Key() {
			return &sr.Viol[i]
		}
	}
	return nil
}

func minimiseSql(sr0 *SqlRun, v Violation) *ReplayFile {
	ops := append([]Op{}, sr0.Ops...)
	cfg := sr0.Cfg
	best := v
	budget := 400
	try := func(c SqlCfg, o []Op) *Violation {
		if budget <= 0 {
			return nil
		}
		budget--
		return reproduceSql(sr0.Seed, c, o, v, "m")
	}
	// drop everything after the op where the violation was observed
	if len(v.Faults) > 0 && v.Faults[0].After >= 0 && v.Faults[0].After+1 < len(ops) {
		cand := ops[:v.Faults[0].After+1]
		if got := try(cfg, cand); got != nil {
			ops, best = append([]Op{}, cand...), *got
		}
	}
	n := 2
	for len(ops) >= 2 && budget > 0 {
		chunk := (len(ops) + n - 1) / n
		reduced := false
		for start := 0; start < len(ops); start += chunk {
			end := start + chunk
			if end > len(ops) {
				end = len(ops)
			}
			cand := append(append([]Op{}, ops[:start]...), ops[end:]...)
			if len(cand) == 0 {
				continue
			}
			if got := try(cfg, cand); got != nil {
				ops, best = cand, *got
				if n > 2 {
					n--
				}
				reduced = true
				break
			}
		}
		if !reduced {
			if chunk == 1 {
				break
			}
			n *= 2
			if n > len(ops) {
				n = len(ops)
			}
		}
	}
	for _, ir := range []int{0, 5} {
		if cfg.InitRows > ir {
			c2 := cfg
			c2.InitRows = ir
			if got := try(c2, ops); got != nil {
				cfg, best = c2, *got
				break
			}
		}
	}
	got := reproduceSql(sr0.Seed, cfg, ops, v, "m")
	if got == nil {
		return nil
	}
	best = *got
	best.Features = sqlFeatures(&cfg, ops)
	opsJSON, _ := marshalOps(ops)
	return &ReplayFile{Property: best.Property, Driver: "sqlsim", Seed: sr0.Seed, Tier: flTier, Cfg: mustJSON(cfg), Ops: opsJSON, Faults: best.Faults, Violation: best, Minimised: true, OpsCount: len(ops)}
}

func replaySqlSim(rf *ReplayFile) (bool, string) {
	var cfg SqlCfg
	if err := json.Unmarshal(rf.Cfg, &cfg); err != nil {
		return false, err.Error()
	}
	ops, err := unmarshalOps(rf.Ops)
	if err != nil {
		return false, err.Error()
	}
	got := reproduceSql(rf.Seed, cfg, ops, rf.Violation, "rp")
	if got == nil {
		return false, "not reproduced"
	}
	return true, got.Key() + " " + got.Detail
}
