package main

// racelog.go (C19): the Go race detector is the oracle. The worker process is started with
// GORACE="halt_on_error=0 log_path=<prefix>"; after every simulated run the new part of
// <prefix>.<pid> is parsed into reports, each report into its two access stacks, and each stack
// into its innermost repository frame. A report is in scope when the racing memory is one of the
// classes the property names (decided by those frames).

import (
	"fmt"
	"os"
	"regexp"
	"sort"
	"strings"
)

var raceLogOff int64

func raceLogPath() string {
	for _, kv := range strings.Fields(os.Getenv("GORACE")) {
		if strings.HasPrefix(kv, "log_path=") {
			return fmt.Sprintf("%s.%d", strings.TrimPrefix(kv, "log_path="), os.Getpid())
		}
	}
	return ""
}

type raceReport struct {
	SiteA, SiteB   string
	StackA, StackB []string
	InScope        bool
	Why            string
	Text           string
}

var reRaceFrame = regexp.MustCompile(`^  ([^\s].*)\(\)$`)

func parseRaceStack(block string) (frames []string) {
	for _, l := range strings.Split(block, "\n") {
		if m := reRaceFrame.FindStringSubmatch(l); m != nil {
			frames = append(frames, m[1])
		}
	}
	return
}

func innermostRepo(frames []string) string {
	for _, f := range frames {
		if strings.Contains(f, "github.com/ryogrid/") {
			f = strings.TrimPrefix(f, "github.com/ryogrid/SamehadaDB/lib/")
			f = strings.TrimPrefix(f, "github.com/ryogrid/")
			return f
		}
	}
	return ""
}

// control flags and hints that the property's wording leaves out
var raceOutOfScope = []string{
	"IsCheckpointActive", "StopCheckpointTh", "StartCheckpointTh",
	"IsUpdaterActive", "StopStatsUpdateTh", "StartStaticsUpdaterTh",
	"(*RequestManager).StopTh", "(*RequestManager).Run",
	"IsEnabledLogging", "ActivateLogging", "DeactivateLogging",
}

var raceInScopePkgs = []string{
	"storage/page.", "storage/page/skip_list_page.", "storage/buffer.", "storage/access.(*LockManager)", "storage/access.(*Transaction)",
	"storage/access.(*TablePage)", "storage/access.(*TableHeap)", "storage/access.(*TableHeapIterator)", "recovery.(*LogManager)", "container/", "storage/index.", "catalog.", "storage/tuple.",
	"bltree-go-for-embedding", "storage/access.(*TransactionManager)", "execution/",
}

func classifyRace(a, b string) (bool, string) {
	if a == "" || b == "" {
		return false, "one access outside the repository (harness or runtime)"
	}
	for _, s := range raceOutOfScope {
		if strings.Contains(a, s) && strings.Contains(b, s) || (strings.Contains(a, s) && isFlagFunc(b)) || (strings.Contains(b, s) && isFlagFunc(a)) {
			return false, "control flag"
		}
	}
	for _, s := range raceOutOfScope {
		if strings.Contains(a, s) || strings.Contains(b, s) {
			// a flag accessor racing with a flag writer
			if isFlagFunc(a) && isFlagFunc(b) {
				return false, "control flag"
			}
		}
	}
	for _, p := range raceInScopePkgs {
		if strings.Contains(a, p) || strings.Contains(b, p) {
			return true, "storage-engine memory"
		}
	}
	return false, "other"
}

func isFlagFunc(f string) bool {
	for _, s := range raceOutOfScope {
		if strings.Contains(f, s) {
			return true
		}
	}
	return false
}

// newRaceReports returns the reports written since the last call.
func newRaceReports() []raceReport {
	p := raceLogPath()
	if p == "" {
		return nil
	}
	f, err := os.Open(p)
	if err != nil {
		return nil
	}
	defer f.Close()
	st, _ := f.Stat()
	if st.Size() <= raceLogOff {
		return nil
	}
	buf := make([]byte, st.Size()-raceLogOff)
	f.ReadAt(buf, raceLogOff)
	raceLogOff = st.Size()
	var out []raceReport
	for _, rep := range strings.Split(string(buf), "WARNING: DATA RACE")[1:] {
		blocks := strings.Split(rep, "\n\n")
		if len(blocks) < 2 {
			continue
		}
		sa, sb := parseRaceStack(blocks[0]), parseRaceStack(blocks[1])
		r := raceReport{StackA: sa, StackB: sb, SiteA: innermostRepo(sa), SiteB: innermostRepo(sb)}
		if r.SiteA > r.SiteB {
			r.SiteA, r.SiteB = r.SiteB, r.SiteA
		}
		r.InScope, r.Why = classifyRace(r.SiteA, r.SiteB)
		txt := rep
		if len(txt) > 2500 {
			txt = txt[:2500]
		}
		r.Text = txt
		out = append(out, r)
	}
	return out
}

// raceViolations turns reports into C19 violations (one per distinct site pair) and counters.
func raceViolations(reps []raceReport, stats map[string]int) []Violation {
	seen := map[string]bool{}
	var vs []Violation
	for _, r := range reps {
		stats["race_reports"]++
		pair := r.SiteA + " | " + r.SiteB
		if !r.InScope {
			stats["race_out_of_scope:"+r.Why]++
			continue
		}
		stats["race_in_scope"]++
		if seen[pair] {
			continue
		}
		seen[pair] = true
		top := func(st []string) string {
			var o []string
			for _, f := range st {
				if strings.Contains(f, "ryogrid") {
					o = append(o, strings.TrimPrefix(strings.TrimPrefix(f, "github.com/ryogrid/SamehadaDB/lib/"), "github.com/ryogrid/"))
				}
				if len(o) >= 4 {
					break
				}
			}
			return strings.Join(o, " < ")
		}
		vs = append(vs, Violation{Property: "C19", Class: "data-race", Site: pair, Detail: fmt.Sprintf("unsynchronised accesses: [%s] and [%s]", top(r.StackA), top(r.StackB))})
	}
	sort.Slice(vs, func(i, j int) bool { return vs[i].Site < vs[j].Site })
	return vs
}
