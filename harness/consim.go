package main

// consim.go: controlled-scheduler simulations (DESIGN.md 2.2): client tasks, the engine's own
// goroutines (request manager loop, one worker per request, checkpoint and statistics threads)
// all run as tasks of the seeded scheduler; the virtual clock fires the 30 s / 10 s timers inside
// foreground operations. Workloads: C12 (concurrent ExecuteSQL calls).

import (
	"encoding/binary"
	"encoding/json"
	"fmt"
	"os"
	"sort"
	"strconv"
	"strings"
	"time"

	"github.com/anishathalye/porcupine"
	"github.com/ryogrid/SamehadaDB/lib/storage/disk"
	"github.com/ryogrid/SamehadaDB/lib/types"
	"verif/simrt"
)

type ConCfg struct {
	Workload   string   `json:"workload"`
	Clients    int      `json:"clients"`
	OpsPer     int      `json:"ops_per_client"`
	Rows       int      `json:"rows"`
	Frames     int      `json:"frames"`
	Policy     int      `json:"policy"`
	StickyP    float64  `json:"sticky_p"`
	PCTDepth   int      `json:"pct_depth"`
	DilateP    float64  `json:"dilate_p"`
	Background bool     `json:"background"`
	Reopen     bool     `json:"reopen,omitempty"` // after the final Shutdown() open the files again and compare (C09)
	MapPermute bool     `json:"map_permute"`
	MaxSteps   int64    `json:"max_steps"`
	Replay     []uint16 `json:"-"`
}

func genConCfg(r *rng, workload string, tier string) ConCfg {
	c := ConCfg{Workload: workload}
	c.Clients = 2 + r.Intn(5)
	if r.Chance(0.15) {
		c.Clients = 8 + r.Intn(5)
	}
	if workload == "c12a" || workload == "c12b" {
		if r.Chance(0.04) {
			// more callers than worker slots (MaxTxnThreadNum = 24): requests wait in the queue
			c.Clients = 26 + r.Intn(14)
		} else if r.Chance(0.02) {
			// more callers than the request manager's input channel holds (100): wake-ups and results pile up
			c.Clients = 105 + r.Intn(40)
		}
	}
	if v := os.Getenv("VERIF_FORCE_CLIENTS"); v != "" {
		fmt.Sscan(v, &c.Clients)
	}
	c.OpsPer = 2 + r.Intn(6)
	if c.Clients > 20 {
		c.OpsPer = 1 + r.Intn(2)
	}
	c.Rows = 3 + r.Intn(6)
	c.Frames = []int{0, 0, 32, 64}[r.Intn(4)]
	c.Policy = []int{simrt.PolRandom, simrt.PolSticky, simrt.PolSticky, simrt.PolPCT, simrt.PolRoundRobin}[r.Intn(5)]
	c.StickyP = []float64{0.5, 0.8, 0.95}[r.Intn(3)]
	c.PCTDepth = 1 + r.Intn(4)
	c.DilateP = []float64{0, 0, 0.001, 0.01}[r.Intn(4)]
	c.Background = r.Chance(0.5)
	c.MapPermute = r.Chance(0.5)
	c.MaxSteps = 600_000
	if workload == "c12a" || workload == "c12b" {
		c.Reopen = r.Chance(0.5)
	}
	if workload == "txn" || workload == "txnwal" {
		// short runs (about 1-3 thousand steps): PCT with change points inside the run finds
		// orderings that need one task to be held back across another task's whole transaction
		if r.Chance(0.5) {
			c.Policy = simrt.PolPCT
			c.PCTDepth = 2 + r.Intn(5)
		}
	}
	if raceEnabled {
		c.MaxSteps = 400_000
	}
	if workload == "logwrap" {
		c.MaxSteps = 2_000_000
	}
	return c
}

// one recorded client operation
type conOp struct {
	Client int     `json:"client"`
	Kind   string  `json:"kind"` // read | write | insert | delete
	Lo, Hi int32   `json:"-"`
	Token  int32   `json:"token,omitempty"`
	SQL    string  `json:"sql"`
	Call   int64   `json:"call"`
	Ret    int64   `json:"ret"`
	Err    string  `json:"err,omitempty"`
	Rows   [][]any `json:"rows,omitempty"`
	Done   bool    `json:"done"`
}

type ConRun struct {
	Seed     uint64
	Cfg      ConCfg
	Dir      string
	Res      simrt.Result
	Hist     [][]conOp // per client
	Viol     []Violation
	Stats    map[string]int
	Final    [][]any
	SetupErr string
	// C09 part of the c12 workloads
	Reopened   [][]any
	ReopenErr  string
	ReopenDone bool
	TxnHist    json.RawMessage
}

func (cr *ConRun) stat(k string, n int) {
	if cr.Stats == nil {
		cr.Stats = map[string]int{}
	}
	cr.Stats[k] += n
}

// faultStats: what the scheduler and the virtual clock injected in this run (evidence: fault_kinds_fired)
func (cr *ConRun) faultStats() {
	cr.stat("fault:preemption", int(cr.Res.Preemptions))
	cr.stat("fault:clock_jump", int(cr.Res.ClockJumps))
	cr.stat("fault:timer_fired_inside_workload", int(cr.Res.TimerFires))
	cr.stat("fault:idle_clock_advance", int(cr.Res.IdleJumps))
}

func (cr *ConRun) viol(prop, class, detail string) {
	cr.stat("viol:"+prop+":"+class, 1)
	cr.Viol = append(cr.Viol, Violation{Property: prop, Class: class, Detail: detail})
}

func (cr *ConRun) simConfig() simrt.Config {
	c := cr.Cfg
	sc := simrt.Config{Seed: simrt.Mix(cr.Seed, 41), Policy: c.Policy, StickyP: c.StickyP, PCTDepth: c.PCTDepth, PCTHorizon: pctHorizon(c.Workload),
		MaxSteps: c.MaxSteps, DilateP: c.DilateP, DilateMax: 2_000_000_000, DrainSteps: 300_000, MaxVirtualNs: 6 * 3600 * 1_000_000_000}
	if c.Replay != nil {
		sc.Policy = simrt.PolReplay
		sc.Replay = c.Replay
	}
	sc.NoKill = raceEnabled
	return sc
}

// runC12: N clients call ExecuteSQL concurrently.
func (cr *ConRun) runC12() {
	cfg := &cr.Cfg
	path := cr.Dir + "/db"
	removeDBFiles(path)
	if cfg.Background {
		backgroundOn()
	} else {
		backgroundOff()
	}
	simrt.SeedRun(cr.Seed, cfg.MapPermute)
	if cfg.Frames < 3*2+10 {
		cfg.Frames = 3*2 + 10 + cfg.Clients*2
	}
	cr.Hist = make([][]conOp, cfg.Clients)
	// pre-generate client programs (so that the schedule does not influence the workload)
	wr := newRng(simrt.Mix(cr.Seed, 42))
	progs := make([][]conOp, cfg.Clients)
	badShare := []float64{0, 0, 0.1, 0.5}[wr.Intn(4)]
	token := int32(1000)
	nextKey := int32(cfg.Rows + 1)
	for c := 0; c < cfg.Clients; c++ {
		for i := 0; i < cfg.OpsPer; i++ {
			lo := int32(1 + wr.Intn(cfg.Rows))
			hi := lo + int32(wr.Intn(3))
			op := conOp{Client: c, Lo: lo, Hi: hi}
			switch cfg.Workload {
			case "c12a":
				if wr.Chance(0.5) {
					op.Kind = "read"
					op.SQL = fmt.Sprintf("SELECT k, v FROM t WHERE k >= %d AND k <= %d;", lo, hi)
				} else {
					token++
					op.Kind, op.Token = "write", token
					op.SQL = fmt.Sprintf("UPDATE t SET v = %d WHERE k >= %d AND k <= %d;", token, lo, hi)
				}
			default: // c12b: exactly-once for inserts / deletes / updates
				if wr.Chance(badShare) {
					// a statement the engine must refuse (unknown table): answered once with an error, no effect,
					// and no resource of the request manager kept
					op.Kind = "bad"
					op.SQL = fmt.Sprintf("SELECT k FROM nosuchtable%d WHERE k = %d;", c, i)
					progs[c] = append(progs[c], op)
					continue
				}
				switch wr.Intn(4) {
				case 0, 1:
					token++
					op.Kind, op.Token = "insert", token
					op.Lo = nextKey
					nextKey++
					op.SQL = fmt.Sprintf("INSERT INTO t(k, v) VALUES (%d, %d);", op.Lo, token)
				case 2:
					op.Kind = "delete"
					op.SQL = fmt.Sprintf("DELETE FROM t WHERE k >= %d AND k <= %d;", lo, hi)
				default:
					token++
					op.Kind, op.Token = "write", token
					op.SQL = fmt.Sprintf("UPDATE t SET v = %d WHERE k >= %d AND k <= %d;", token, lo, hi)
				}
			}
			progs[c] = append(progs[c], op)
		}
	}
	var s *SUT
	cr.Res = simrt.Run(cr.simConfig(), func() {
		var pi *PanicInfo
		s, pi = OpenSUT(path, cfg.Frames)
		if pi != nil {
			cr.SetupErr = "open: " + pi.String()
			return
		}
		if res := s.AutoSQL("CREATE TABLE t(k INT, v INT);"); !res.OK() {
			cr.SetupErr = fmt.Sprintf("create: %v", res.Err)
			return
		}
		for k := 1; k <= cfg.Rows; k++ {
			if res := s.AutoSQL(fmt.Sprintf("INSERT INTO t(k, v) VALUES (%d, %d);", k, k)); !res.OK() {
				cr.SetupErr = fmt.Sprintf("insert: %v", res.Err)
				return
			}
		}
		var tasks []*simrt.Task
		for c := 0; c < cfg.Clients; c++ {
			c := c
			tasks = append(tasks, simrt.S.Spawn(fmt.Sprintf("client-%d", c), func() {
				for _, op := range progs[c] {
					op.Call = simrt.S.Steps()
					cr.Hist[c] = append(cr.Hist[c], op)
					idx := len(cr.Hist[c]) - 1
					progressTick()
					err, rows := s.DB.ExecuteSQL(op.SQL)
					h := &cr.Hist[c][idx]
					h.Ret = simrt.S.Steps()
					h.Done = true
					if err != nil {
						h.Err = err.Error()
					}
					for _, r := range rows {
						h.Rows = append(h.Rows, append([]any{}, r...))
					}
				}
			}))
		}
		for _, t := range tasks {
			simrt.S.Join(t)
		}
		err, rows := s.DB.ExecuteSQL("SELECT k, v FROM t WHERE k >= 0 OR k < 0;")
		if err == nil {
			for _, r := range rows {
				cr.Final = append(cr.Final, append([]any{}, r...))
			}
		} else {
			cr.SetupErr = "final select: " + err.Error()
		}
		s.DB.Shutdown()
		s.closed = true
		if cfg.Reopen && cr.SetupErr == "" {
			// C09 under concurrency: Shutdown() was called while the checkpoint / statistics tasks may be in
			// the middle of a pass; whatever they do afterwards, the reopened database shows the same rows
			s2, pi := OpenSUT(path, cfg.Frames)
			if pi != nil {
				cr.ReopenErr = "reopen after Shutdown() panicked: " + pi.String()
				return
			}
			err, rows := s2.DB.ExecuteSQL("SELECT k, v FROM t WHERE k >= 0 OR k < 0;")
			if err != nil {
				cr.ReopenErr = "select after reopen: " + err.Error()
			}
			for _, r := range rows {
				cr.Reopened = append(cr.Reopened, append([]any{}, r...))
			}
			cr.ReopenDone = true
			s2.DB.Shutdown()
			s2.closed = true
		}
	})
	// (when the simulation was aborted the instance is abandoned: its latches may be held by killed tasks)
	if simrt.DumpStacks && cr.Res.Outcome != "ok" {
		fmt.Fprint(os.Stderr, dumpLockTables(s.DB.GetSamehadaInstance().GetLockManager()))
	}
	cr.stat("steps", int(cr.Res.Steps))
	cr.stat("decisions", int(cr.Res.Decisions))
	cr.stat("preemptions", int(cr.Res.Preemptions))
	cr.faultStats()
	cr.stat("tasks", cr.Res.Tasks)
	cr.stat("outcome:"+cr.Res.Outcome, 1)
	cr.check()
}

func (cr *ConRun) check() {
	res := &cr.Res
	switch res.Outcome {
	case "deadlock":
		cr.viol("C12", "no-progress:deadlock", fmt.Sprintf("deadlock after %d steps; tasks: %s", res.Steps, strings.Join(res.Blocked, "; ")))
		return
	case "step-limit", "time-limit", "task-limit":
		// bounded progress is judged under the uniformly random policy only: with no-wait locking and
		// immediate retry an unfair scheduler can keep producing conflicts (the retried statement is always
		// run before the lock holder), and so can a perfectly regular one (round-robin keeps two symmetric
		// read-then-upgrade statements in lock step: both hold S, both fail to upgrade, both retry; seen
		// for 12900 rounds) - only random choice breaks the symmetry, as a real scheduler's jitter does.
		// ... and only for moderate contention: with dozens of callers on a handful of rows the retry
		// storm of no-wait locking legitimately needs more steps than the budget
		if cr.Cfg.Policy == simrt.PolRandom && cr.Cfg.Clients <= 12 {
			cr.viol("C12", "no-progress:"+res.Outcome, fmt.Sprintf("%s under a fair scheduling policy after %d steps; tasks: %s", res.Outcome, res.Steps, strings.Join(firstN(res.Blocked, 12), "; ")))
		} else {
			cr.stat("inconclusive_no_progress_under_unfair_policy", 1)
		}
		return
	case "panic":
		site := panicSite(res.PanicStack)
		v := Violation{Property: "C12", Class: "panic-under-concurrency", Detail: fmt.Sprintf("task %s: %s [%s]", res.PanicTask, res.PanicVal, repoFrames(res.PanicStack, 6)), Site: site}
		cr.Viol = append(cr.Viol, v)
		return
	case "divergence":
		cr.viol("REPLAY", "divergence", "recorded schedule not runnable")
		return
	}
	if cr.SetupErr != "" {
		cr.viol("C12", "setup-or-final-statement-failed", cr.SetupErr)
		return
	}
	// exactly one reply per call, belonging to the call
	var all []conOp
	for _, h := range cr.Hist {
		for _, op := range h {
			if !op.Done {
				cr.viol("C12", "call-without-reply", op.SQL)
				return
			}
			if op.Kind == "bad" {
				if op.Err == "" {
					cr.viol("C12", "refused-statement-answered-without-error", op.SQL)
					return
				}
				cr.stat("refused_statements_answered", 1)
				continue
			}
			if op.Err != "" {
				cr.viol("C12", "call-returned-error", op.SQL+": "+op.Err)
				return
			}
			all = append(all, op)
		}
	}
	cr.stat("calls", len(all))
	switch cr.Cfg.Workload {
	case "c12a":
		cr.checkLinearizable(all)
	default:
		cr.checkExactlyOnce(all)
	}
	if cr.Cfg.Reopen {
		cr.stat("reopen_after_concurrent_shutdown", 1)
		if cr.ReopenErr != "" {
			cr.viol("C09", "reopen-after-shutdown-under-concurrency", cr.ReopenErr)
		} else if cr.ReopenDone {
			a, b := canonRows(cr.Final), canonRows(cr.Reopened)
			if !sameStrings(a, b) {
				cr.viol("C09", "reopen-after-shutdown-under-concurrency", "rows before Shutdown() vs after reopen: "+diffStrings(a, b))
			}
		}
	}
}

// shape check: a read reply must have (k, v) rows with k in its own range (belongs to its statement)
func replyBelongs(op *conOp) string {
	for _, r := range op.Rows {
		if len(r) != 2 {
			return fmt.Sprintf("row with %d columns", len(r))
		}
		k, ok := r[0].(int32)
		if !ok || k < op.Lo || k > op.Hi {
			return fmt.Sprintf("row %v outside the statement's range [%d,%d]", r, op.Lo, op.Hi)
		}
	}
	return ""
}

type c12in struct {
	write  bool
	lo, hi int32
	token  int32
}

func (cr *ConRun) checkLinearizable(all []conOp) {
	R := cr.Cfg.Rows
	initState := make([]string, R+1)
	for k := 1; k <= R; k++ {
		initState[k] = strconv.Itoa(k)
	}
	model := porcupine.Model{
		Init: func() interface{} { return strings.Join(initState, ",") },
		Step: func(state, input, output interface{}) (bool, interface{}) {
			st := strings.Split(state.(string), ",")
			in := input.(c12in)
			if in.write {
				ns := append([]string{}, st...)
				for k := in.lo; k <= in.hi && int(k) <= R; k++ {
					ns[k] = strconv.Itoa(int(in.token))
				}
				return true, strings.Join(ns, ",")
			}
			want := map[int32]string{}
			for k := in.lo; k <= in.hi && int(k) <= R; k++ {
				want[k] = st[k]
			}
			rows := output.([][]any)
			if len(rows) != len(want) {
				return false, state
			}
			for _, r := range rows {
				k, _ := r[0].(int32)
				v, _ := r[1].(int32)
				if want[k] != strconv.Itoa(int(v)) {
					return false, state
				}
			}
			return true, state
		},
	}
	var ops []porcupine.Operation
	for i := range all {
		op := &all[i]
		if op.Kind == "read" {
			if msg := replyBelongs(op); msg != "" {
				cr.viol("C12", "reply-of-another-statement", op.SQL+": "+msg)
				return
			}
		} else if len(op.Rows) != 0 {
			cr.viol("C12", "reply-of-another-statement", fmt.Sprintf("%s returned %d rows", op.SQL, len(op.Rows)))
			return
		}
		ops = append(ops, porcupine.Operation{ClientId: op.Client, Input: c12in{op.Kind == "write", op.Lo, op.Hi, op.Token}, Call: op.Call, Output: op.Rows, Return: op.Ret})
	}
	// the final read by the root is part of the history
	ops = append(ops, porcupine.Operation{ClientId: cr.Cfg.Clients, Input: c12in{false, 1, int32(R), 0}, Call: cr.Res.Steps + 1, Output: cr.Final, Return: cr.Res.Steps + 2})
	r := porcupine.CheckOperationsTimeout(model, ops, 20*time.Second)
	switch r {
	case porcupine.Illegal:
		var sb strings.Builder
		sort.Slice(all, func(i, j int) bool { return all[i].Call < all[j].Call })
		for _, op := range all {
			fmt.Fprintf(&sb, "[c%d %d-%d] %s -> %v; ", op.Client, op.Call, op.Ret, op.SQL, op.Rows)
		}
		fmt.Fprintf(&sb, "final: %v", cr.Final)
		cr.viol("C12", "not-linearizable", "no serial order consistent with real time explains the replies: "+sb.String())
	case porcupine.Unknown:
		cr.stat("porcupine_unknown", 1)
	default:
		cr.stat("porcupine_ok", 1)
	}
}

func (cr *ConRun) checkExactlyOnce(all []conOp) {
	// every acknowledged INSERT token occurs exactly once unless a later-or-concurrent DELETE/UPDATE
	// covers its key; keys are unique per insert, so: count per key <= 1 always, and == 1 when
	// no delete range contains the key and no update range contains it (then value == token).
	count := map[int32]int{}
	val := map[int32]int32{}
	for _, r := range cr.Final {
		k, _ := r[0].(int32)
		v, _ := r[1].(int32)
		count[k]++
		val[k] = v
	}
	for k, n := range count {
		if n > 1 {
			cr.viol("C12", "statement-applied-twice", fmt.Sprintf("key %d occurs %d times in the final table", k, n))
			return
		}
	}
	covered := func(k int32, kind string) bool {
		for _, op := range all {
			if op.Kind == kind && op.Lo <= k && k <= op.Hi {
				return true
			}
		}
		return false
	}
	for _, op := range all {
		if op.Kind != "insert" {
			continue
		}
		k := op.Lo
		if !covered(k, "delete") {
			if count[k] != 1 {
				cr.viol("C12", "acknowledged-insert-lost", fmt.Sprintf("%s was acknowledged, no DELETE covers key %d, final table has it %d times", op.SQL, k, count[k]))
				return
			}
			if !covered(k, "write") && val[k] != op.Token {
				cr.viol("C12", "acknowledged-insert-lost", fmt.Sprintf("%s: final value %d", op.SQL, val[k]))
				return
			}
		}
	}
	// a delete that strictly follows (in real time) every operation that could (re)create a key leaves it absent
	for _, d := range all {
		if d.Kind != "delete" {
			continue
		}
		for k := d.Lo; k <= d.Hi; k++ {
			if count[k] == 0 {
				continue
			}
			// key present: legal only if some insert of k did not return before the delete was called
			legal := false
			for _, op := range all {
				if op.Kind == "insert" && op.Lo == k && op.Ret >= d.Call {
					legal = true
				}
			}
			if int(k) <= cr.Cfg.Rows {
				legal = false // initial rows are never re-inserted
			}
			if !legal {
				cr.viol("C12", "acknowledged-delete-not-applied", fmt.Sprintf("%s was acknowledged but key %d is still in the final table", d.SQL, k))
				return
			}
		}
	}
	// every value in the final table was written by some statement (or is initial)
	for k, v := range val {
		ok := int(k) <= cr.Cfg.Rows && v == k
		for _, op := range all {
			if (op.Kind == "write" && op.Lo <= k && k <= op.Hi && op.Token == v) || (op.Kind == "insert" && op.Lo == k && op.Token == v) {
				ok = true
			}
		}
		if !ok {
			cr.viol("C12", "value-from-nowhere", fmt.Sprintf("final row (%d,%d) was written by no statement", k, v))
			return
		}
	}
}

// ---------------------------------------------------------------- driver

func init() {
	drivers["consim"] = runConSim
	replayers["consim"] = replayConSim
}

func newConRun(seed uint64, cfg ConCfg, tag string) *ConRun {
	dir := fmt.Sprintf("%s/%s", flScratch, tag)
	os.MkdirAll(dir, 0755)
	return &ConRun{Seed: seed, Cfg: cfg, Dir: dir}
}

func (cr *ConRun) run() {
	progressTick()
	switch cr.Cfg.Workload {
	case "c12a", "c12b":
		cr.runC12()
	default:
		cr.runOther()
	}
}

func workloadFor(prop string, r *rng) string {
	if w := os.Getenv("VERIF_FORCE_WORKLOAD"); w != "" {
		return w
	}
	switch prop {
	case "C12":
		if r.Chance(0.6) {
			return "c12a"
		}
		return "c12b"
	case "C09":
		return "c12b"
	case "C08":
		if r.Chance(0.02) {
			return "logwrap"
		}
		return "txnwal"
	case "C04", "C05", "C03":
		if r.Chance(0.004) {
			return "logwrap"
		}
		return "txn"
	case "C16":
		return "lock"
	case "C17":
		return "index"
	case "C13":
		return "bpm"
	case "C19":
		if r.Chance(0.03) {
			return "logwrap"
		}
		return []string{"c12a", "c12b", "txn", "index"}[r.Intn(4)]
	}
	return "c12a"
}

func runConSim(run int, seed uint64) RunReport {
	rep := RunReport{}
	wr := newRng(simrt.Mix(seed, 1))
	cfg := genConCfg(wr, workloadFor(flProp, wr), flTier)
	if flProp == "C09" {
		// clean shutdown while the engine's own tasks are alive, then reopen
		cfg.Reopen = true
		cfg.Background = true
		if cfg.Clients > 12 {
			cfg.Clients = 2 + wr.Intn(5)
		}
	}
	cr := newConRun(seed, cfg, "n")
	defer os.RemoveAll(cr.Dir)
	liveCfg = &cr.Cfg
	cr.run()
	if raceEnabled {
		if cr.Stats == nil {
			cr.Stats = map[string]int{}
		}
		rv := raceViolations(newRaceReports(), cr.Stats)
		if flProp == "C19" {
			// C19 reports races only; functional outcomes of the run are counted as observations
			for _, v := range cr.Viol {
				cr.Stats["other:"+v.Property+":"+v.Class]++
			}
			cr.Viol = rv
		} else {
			cr.Viol = append(cr.Viol, rv...)
		}
	}
	rep.Stats = cr.Stats
	rep.VirtualNs = cr.Res.VirtualNs
	// signature: outcome + schedule hash
	var sb strings.Builder
	for _, t := range cr.Res.Trace {
		sb.WriteString(strconv.Itoa(int(t)))
		sb.WriteByte(',')
	}
	rep.Sig = shapeSig(cfg.Workload, sb.String())
	rep.EventHash = shapeSig(sb.String(), fmt.Sprint(cr.Hist), string(cr.TxnHist), fmt.Sprint(cr.Final), cr.Res.Outcome)
	rep.Nontrivial = cr.Res.Preemptions > 0
	hist, _ := json.Marshal(cr.Hist)
	if cr.TxnHist != nil {
		hist = cr.TxnHist
	}
	rep.Sample = map[string]any{"cfg": cr.Cfg, "history": json.RawMessage(hist), "schedule_decisions": cr.Res.Decisions}
	seen := map[string]bool{}
	other := map[string]int{}
	for _, v := range cr.Viol {
		if v.Property != flProp {
			other[v.Property+":"+v.Class]++
			continue
		}
		if seen[v.Key()] {
			continue
		}
		seen[v.Key()] = true
		rf := ReplayFile{Property: v.Property, Driver: "consim", Seed: seed, Tier: flTier, Cfg: mustJSON(cr.Cfg), Schedule: cr.Res.Trace, Violation: v, OpsCount: len(cr.Res.Trace)}
		if v.Property != "C19" && mayMinimise() {
			if m := minimiseCon(cr, v); m != nil {
				rf = *m
			}
		}
		rep.Viol = append(rep.Viol, rf)
	}
	if len(other) > 0 {
		rep.Extra = map[string]any{"other_property_observations": other}
	}
	rep.Outcome = "ok"
	if len(rep.Viol) > 0 {
		rep.Outcome = "violation"
	}
	return rep
}

// minimiseCon: fewer clients / fewer operations per client while the same violation class persists
// (the schedule is re-drawn from the seed for each candidate; the final file carries the schedule
// that actually failed).
func minimiseCon(cr0 *ConRun, v Violation) *ReplayFile {
	best := cr0
	try := func(c ConCfg) *ConRun {
		cr := newConRun(cr0.Seed, c, "m")
		defer os.RemoveAll(cr.Dir)
		cr.run()
		for _, x := range cr.Viol {
			if x.Key() == v.Key() {
				return cr
			}
		}
		return nil
	}
	deadline := time.Now().Add(30 * time.Second)
	changed := true
	for changed && time.Now().Before(deadline) {
		changed = false
		c := best.Cfg
		for _, cand := range []ConCfg{
			func() ConCfg { x := c; x.Clients = c.Clients - 1; return x }(),
			func() ConCfg { x := c; x.OpsPer = c.OpsPer - 1; return x }(),
			func() ConCfg { x := c; x.Background = false; return x }(),
			func() ConCfg { x := c; x.DilateP = 0; return x }(),
			func() ConCfg { x := c; x.Rows = c.Rows - 1; return x }(),
		} {
			if cand.Clients < 1 || cand.OpsPer < 1 || cand.Rows < 1 || fmt.Sprint(cand) == fmt.Sprint(c) {
				continue
			}
			if got := try(cand); got != nil {
				best = got
				changed = true
				break
			}
		}
	}
	var bv Violation
	for _, x := range best.Viol {
		if x.Key() == v.Key() {
			bv = x
		}
	}
	return &ReplayFile{Property: bv.Property, Driver: "consim", Seed: cr0.Seed, Tier: flTier, Cfg: mustJSON(best.Cfg), Schedule: best.Res.Trace, Violation: bv, Minimised: true, OpsCount: len(best.Res.Trace)}
}

func replayConSim(rf *ReplayFile) (bool, string) {
	var cfg ConCfg
	if err := json.Unmarshal(rf.Cfg, &cfg); err != nil {
		return false, err.Error()
	}
	cfg.Replay = rf.Schedule
	cr := newConRun(rf.Seed, cfg, "rp")
	defer os.RemoveAll(cr.Dir)
	cr.run()
	if flVerbose {
		fmt.Fprintf(os.Stderr, "outcome=%s steps=%d\nhistory=%s\nclient history=%v\nfinal=%v\n", cr.Res.Outcome, cr.Res.Steps, string(cr.TxnHist), cr.Hist, cr.Final)
	}
	if cr.Res.Outcome == "divergence" {
		return false, "replay divergence: the recorded schedule is not runnable on this tree"
	}
	if raceEnabled {
		st := map[string]int{}
		cr.Viol = append(cr.Viol, raceViolations(newRaceReports(), st)...)
	}
	for _, x := range cr.Viol {
		if x.Key() == rf.Violation.Key() {
			return true, x.Key() + " " + x.Detail
		}
	}
	return false, "not reproduced (outcome " + cr.Res.Outcome + ")"
}

func (cr *ConRun) runOther() {
	switch cr.Cfg.Workload {
	case "txn", "txnwal":
		cr.runTxn()
	case "index":
		cr.runIndex()
	case "lock":
		cr.runLock()
	case "bpm":
		cr.runBpm()
	case "logwrap":
		cr.runLogWrap()
	default:
		cr.SetupErr = "workload " + cr.Cfg.Workload + " not implemented"
	}
}

// runTxn: one task per multi-statement transaction program (explicit transaction handles), the
// engine's background tasks alive; history checked by the C04 / C05 oracles.
func (cr *ConRun) runTxn() {
	cfg := &cr.Cfg
	path := cr.Dir + "/db"
	removeDBFiles(path)
	if cfg.Background {
		backgroundOn()
	} else {
		backgroundOff()
	}
	simrt.SeedRun(cr.Seed, cfg.MapPermute)
	if cfg.Frames < 16+2*cfg.Clients {
		cfg.Frames = 16 + 2*cfg.Clients
	}
	wr := newRng(simrt.Mix(cr.Seed, 43))
	rows := cfg.Rows
	if rows > 5 {
		rows = 5
	}
	tok := int32(1000)
	nk := int32(rows)
	nTxn := cfg.Clients
	wal := cfg.Workload == "txnwal"
	var progs []TxnProg
	duel := false
	if !wal && wr.Chance(0.25) {
		progs = genDuel(wr, rows, &tok, wr.Chance(0.3))
		nTxn = 2
		duel = true
		cr.stat("txn_duel_runs", 1)
	} else {
		progs = genProgs(wr, nTxn, rows, &tok, &nk, !wal && wr.Chance(0.3))
	}
	if flProp == "C03" {
		// abort-heavy: explicit aborts at the end of programs on top of the aborts by lock conflict
		for i := range progs {
			if wr.Chance(0.4) {
				progs[i].Abort = true
			}
		}
	}
	hist := make([]HTxn, nTxn)
	var rec *disk.SimRecorder
	heapPages := map[int32]bool{0: true, 1: true}
	if wal && !raceEnabled {
		rec = &disk.SimRecorder{}
		disk.SimRec = rec
		defer func() { disk.SimRec = nil }()
		cfg.Frames = 3*3 + 6 + cfg.Clients
	}
	var final [][]any
	var s *SUT
	cr.Res = simrt.Run(cr.simConfig(), func() {
		var pi *PanicInfo
		s, pi = OpenSUT(path, cfg.Frames)
		if pi != nil {
			cr.SetupErr = "open: " + pi.String()
			return
		}
		ddl := "CREATE TABLE t(k INT, v INT);"
		if wal {
			ddl = "CREATE TABLE t(k INT, v INT, s VARCHAR(512));"
		}
		if res := s.AutoSQL(ddl); !res.OK() {
			cr.SetupErr = "create"
			return
		}
		for k := 1; k <= rows; k++ {
			q := fmt.Sprintf("INSERT INTO t(k, v) VALUES (%d, %d);", k, k)
			if wal {
				q = fmt.Sprintf("INSERT INTO t(k, v, s) VALUES (%d, %d, '%s');", k, k, wr.Str(300))
			}
			if res := s.AutoSQL(q); !res.OK() {
				cr.SetupErr = "insert"
				return
			}
		}
		if wal {
			// filler rows behind the ones the programs touch: the heap spans several pages, so scans evict
			for k := 1001; k <= 1040; k++ {
				if res := s.AutoSQL(fmt.Sprintf("INSERT INTO t(k, v, s) VALUES (%d, %d, '%s');", k, k, wr.Str(350))); !res.OK() {
					cr.SetupErr = "insert filler"
					return
				}
			}
		}
		if wr.Chance(0.5) {
			s.RefreshStats()
		}
		if duel {
			simrt.S.ArmPCT(300)
		} else {
			simrt.S.ArmPCT(int64(300 * nTxn))
		}
		var tasks []*simrt.Task
		for i := 0; i < nTxn; i++ {
			i := i
			hist[i].ID = i
			tasks = append(tasks, simrt.S.Spawn(fmt.Sprintf("txn-%d", i), func() {
				h := &hist[i]
				t, pi := s.Begin()
				if pi != nil {
					panic("begin: " + pi.Val)
				}
				for j, st := range progs[i].Stmts {
					hs := HStmt{Idx: j, St: st, Call: simrt.S.Steps()}
					progressTick()
					r := execPStmt(t, st)
					hs.Ret = simrt.S.Steps()
					if r.Panic != nil {
						panic(st.SQL() + ": " + r.Panic.String())
					}
					if r.Aborted || r.Err != nil {
						hs.Status = "aborted"
						h.Stmts = append(h.Stmts, hs)
						h.EndCall = simrt.S.Steps()
						if pi := t.Abort(); pi != nil {
							panic("abort: " + pi.String())
						}
						h.EndRet = simrt.S.Steps()
						h.Outcome = "conflict-aborted"
						return
					}
					hs.Status = "ok"
					hs.Rows = r.Rows
					h.Stmts = append(h.Stmts, hs)
				}
				h.EndCall = simrt.S.Steps()
				var pe *PanicInfo
				if progs[i].Abort {
					pe = t.Abort()
					h.Outcome = "aborted"
				} else {
					wrote := int64(0)
					if len(t.Txn.GetWriteSet()) > 0 {
						wrote = 1
					}
					disk.SimMark("commit-called", t.ID(), wrote)
					pe = t.Commit()
					disk.SimMark("commit-returned", t.ID(), wrote)
					h.Outcome = "committed"
				}
				h.EndRet = simrt.S.Steps()
				if pe != nil {
					panic("end: " + pe.String())
				}
			}))
		}
		for _, t := range tasks {
			simrt.S.Join(t)
		}
		if rec != nil {
			// heap pages of t (for M-WAL), read without recording
			func() {
				defer func() { recover() }()
				tm := s.Cat.GetTableByName("t")
				pid := tm.Table().GetFirstPageID()
				for n := 0; pid.IsValid() && n < 1000; n++ {
					heapPages[int32(pid)] = true
					pg := s.Shi.GetBufferPoolManager().FetchPage(pid)
					if pg == nil {
						break
					}
					next := int32(binary.LittleEndian.Uint32(pg.Data()[12:16]))
					s.Shi.GetBufferPoolManager().UnpinPage(pid, false)
					pid = types.PageID(next)
				}
			}()
		}
		rowsF, _, r := s.ScanHeap("t")
		if r.OK() {
			final = rowsF
		} else {
			cr.SetupErr = fmt.Sprintf("final scan: %v %v", r.Err, r.Panic)
		}
		s.DB.Shutdown()
		s.closed = true
	})
	cr.stat("steps", int(cr.Res.Steps))
	cr.stat("decisions", int(cr.Res.Decisions))
	cr.stat("preemptions", int(cr.Res.Preemptions))
	cr.faultStats()
	cr.stat("outcome:"+cr.Res.Outcome, 1)
	hj, _ := json.Marshal(hist)
	cr.TxnHist = hj
	if os.Getenv("VERIF_TRACE") != "" {
		for _, h := range hist {
			fmt.Fprintf(os.Stderr, "txn %d outcome=%s end=[%d,%d]\n", h.ID, h.Outcome, h.EndCall, h.EndRet)
			for _, hs := range h.Stmts {
				fmt.Fprintf(os.Stderr, "   [%d,%d] %s path=%s -> %s %v\n", hs.Call, hs.Ret, hs.St.SQL(), hs.St.Path, hs.Status, hs.Rows)
			}
		}
		fmt.Fprintf(os.Stderr, "final %v\n", final)
	}
	if rec != nil && cr.Res.Outcome == "ok" {
		wv, wst := walMonitor(nil, rec.Events, heapPages, -1)
		cr.stat("wal_page_writes", wst.PageWrites)
		cr.stat("wal_heap_page_writes", wst.HeapPageWrites)
		cr.stat("wal_log_writes", wst.LogWrites)
		cr.stat("wal_commits_checked", wst.CommitsChecked)
		seenW := map[string]bool{}
		for _, v := range wv {
			if seenW[v.Class] {
				continue
			}
			seenW[v.Class] = true
			cr.Viol = append(cr.Viol, Violation{Property: "C08", Class: v.Class + "@concurrent", Detail: v.Msg})
		}
	}
	switch cr.Res.Outcome {
	case "deadlock":
		cr.viol(txnWorkloadProp("C12"), "no-progress:deadlock", strings.Join(firstN(cr.Res.Blocked, 12), "; "))
		return
	case "panic":
		cr.Viol = append(cr.Viol, Violation{Property: txnWorkloadProp("C04"), Class: "panic-under-concurrency", Detail: fmt.Sprintf("task %s: %s [%s]", cr.Res.PanicTask, cr.Res.PanicVal, repoFrames(cr.Res.PanicStack, 6)), Site: panicSite(cr.Res.PanicStack)})
		return
	case "ok":
	default:
		cr.stat("inconclusive_"+cr.Res.Outcome, 1)
		return
	}
	if cr.SetupErr != "" {
		cr.viol("C04", "setup-or-final-statement-failed", cr.SetupErr)
		return
	}
	for _, h := range hist {
		cr.stat("txn:"+h.Outcome, 1)
	}
	if wal {
		return // (the WAL flavour has filler rows and a third column: only M-WAL is evaluated on it)
	}
	if hasDupKeys(final) {
		cr.stat("inconclusive_duplicate_keys_by_concurrent_reinsert", 1)
		return
	}
	o := newOracle(rows, hist, false)
	cr.Viol = append(cr.Viol, o.c04()...)
	cr.Viol = append(cr.Viol, o.c05()...)
	if v := finalStateCheck(rows, hist, final); v != nil {
		cr.Viol = append(cr.Viol, *v)
	}
	if v := abortTraceCheck(rows, hist, final); v != nil {
		cr.Viol = append(cr.Viol, *v)
	}
}

// txnWorkloadProp: a deadlock or an engine panic in the multi-statement transaction workloads (txn, txnwal,
// logwrap) violates whichever of the transaction properties is under test (a statement that neither
// returns nor aborts; no-wait locking cannot deadlock legitimately): it is reported by the running check
// instead of being counted as an observation for a property whose own check never runs this workload.
func txnWorkloadProp(dflt string) string {
	switch flProp {
	case "C03", "C04", "C05", "C08":
		return flProp
	}
	return dflt
}

func firstN(xs []string, n int) []string {
	if len(xs) > n {
		return append(append([]string{}, xs[:n]...), fmt.Sprintf("... (+%d)", len(xs)-n))
	}
	return xs
}

func pctHorizon(workload string) int64 {
	switch workload {
	case "txn", "txnwal", "lock":
		return 2500
	}
	return 6000
}
