package main

// walmon.go: independent decoder of the write-ahead log (written from the documented record layout
// in lib/recovery/log_record.go, not by calling the engine's deserialiser) and the seam monitor
// M-WAL for property C08.

import (
	"encoding/binary"
	"fmt"
	"math"

	"github.com/ryogrid/SamehadaDB/lib/storage/disk"
)

const (
	ltInvalid = iota
	ltInsert
	ltMarkDelete
	ltApplyDelete
	ltRollbackDelete
	ltUpdate
	ltBegin
	ltCommit
	ltAbort
	ltNewTablePage
	ltDeallocatePage
	ltReusePage
	ltGracefulShutdown
)

var ltNames = []string{"INVALID", "INSERT", "MARKDELETE", "APPLYDELETE", "ROLLBACKDELETE", "UPDATE", "BEGIN", "COMMIT", "ABORT", "NEWPAGE", "DEALLOC", "REUSE", "GRACEFUL"}

type LogRec struct {
	Off     int
	Size    int
	LSN     int32
	Txn     int32
	PrevLSN int32
	Type    int32
	Page    int32 // page the record applies to (-1 if none)
	Slot    uint32
	PrevPg  int32
}

func (r LogRec) String() string {
	tn := "?"
	if int(r.Type) < len(ltNames) && r.Type >= 0 {
		tn = ltNames[r.Type]
	}
	return fmt.Sprintf("{off=%d size=%d lsn=%d txn=%d prev=%d %s page=%d slot=%d}", r.Off, r.Size, r.LSN, r.Txn, r.PrevLSN, tn, r.Page, r.Slot)
}

// parseLog decodes as many complete records as possible. rest = number of trailing bytes that do
// not form a complete, well-formed record; bad != "" describes why parsing stopped (other than EOF).
func parseLog(b []byte) (recs []LogRec, rest int, bad string) {
	off := 0
	for off < len(b) {
		if len(b)-off < 20 {
			return recs, len(b) - off, "truncated header"
		}
		size := int(int32(binary.LittleEndian.Uint32(b[off:])))
		r := LogRec{Off: off, Size: size,
			LSN:     int32(binary.LittleEndian.Uint32(b[off+4:])),
			Txn:     int32(binary.LittleEndian.Uint32(b[off+8:])),
			PrevLSN: int32(binary.LittleEndian.Uint32(b[off+12:])),
			Type:    int32(binary.LittleEndian.Uint32(b[off+16:])),
			Page:    -1}
		if size < 20 {
			return recs, len(b) - off, fmt.Sprintf("record size %d < header at offset %d", size, off)
		}
		if r.Type <= ltInvalid || r.Type > ltGracefulShutdown {
			return recs, len(b) - off, fmt.Sprintf("invalid record type %d at offset %d", r.Type, off)
		}
		if off+size > len(b) {
			return recs, len(b) - off, "truncated body"
		}
		body := b[off+20 : off+size]
		want := -1
		switch r.Type {
		case ltInsert, ltMarkDelete, ltApplyDelete, ltRollbackDelete:
			if len(body) < 12 {
				return recs, len(b) - off, fmt.Sprintf("short %s body at %d", ltNames[r.Type], off)
			}
			r.Page = int32(binary.LittleEndian.Uint32(body))
			r.Slot = binary.LittleEndian.Uint32(body[4:])
			ts := int(binary.LittleEndian.Uint32(body[8:]))
			want = 12 + ts
		case ltUpdate:
			if len(body) < 16 {
				return recs, len(b) - off, fmt.Sprintf("short UPDATE body at %d", off)
			}
			r.Page = int32(binary.LittleEndian.Uint32(body))
			r.Slot = binary.LittleEndian.Uint32(body[4:])
			os := int(binary.LittleEndian.Uint32(body[8:]))
			if 12+os+4 > len(body) {
				return recs, len(b) - off, fmt.Sprintf("UPDATE old tuple overruns record at %d", off)
			}
			ns := int(binary.LittleEndian.Uint32(body[12+os:]))
			want = 12 + os + 4 + ns
		case ltNewTablePage:
			want = 8
			if len(body) >= 8 {
				r.PrevPg = int32(binary.LittleEndian.Uint32(body))
				r.Page = int32(binary.LittleEndian.Uint32(body[4:]))
			}
		case ltDeallocatePage, ltReusePage:
			want = 4
			if len(body) >= 4 {
				r.Page = int32(binary.LittleEndian.Uint32(body))
			}
		case ltBegin, ltCommit, ltAbort, ltGracefulShutdown:
			want = 0
		}
		if want != len(body) {
			return recs, len(b) - off, fmt.Sprintf("%s record at %d: body %d bytes, layout needs %d", ltNames[r.Type], off, len(body), want)
		}
		recs = append(recs, r)
		off += size
	}
	return recs, 0, ""
}

// WalViolation is one breach of C08.
type WalViolation struct {
	Class string `json:"class"`
	Event int    `json:"event"`
	Page  int32  `json:"page,omitempty"`
	LSN   int32  `json:"lsn,omitempty"`
	Msg   string `json:"msg"`
}

type WalStats struct {
	PageWrites, HeapPageWrites, LogWrites, LogBytes, Records, CommitsChecked, GCs int
	MaxRecsPerWrite                                                               int
}

// walMonitor checks the recorded I/O trace of one run.
//   - baseLog: bytes of the log file when recording started
//   - heapPages: ids of user-table heap pages (decided after the run by walking the catalog);
//     catalog pages 0 and 1 are heap pages of the catalog tables and are included.
//   - writers: set of engine transaction ids that wrote something (from harness markers);
//     "commit-returned" markers carry (txn id, wrote flag).
func walMonitor(baseLog []byte, events []disk.SimEvent, heapPages map[int32]bool, lsnFloor int32) (viol []WalViolation, st WalStats) {
	logBytes := append([]byte{}, baseLog...)
	durable := map[int32]bool{} // LSNs whose records are completely in the log file
	committed := map[int32]bool{}
	lastLSN := map[int32]int32{} // per txn
	lastAny := map[int32]int32{} // per txn: lsn of its latest record (for prevLSN chain)
	maxDurable := lsnFloor       // LSNs <= floor count as durable (truncated log / earlier run)
	parsedUpTo := 0
	inBase := true
	reparse := func(ev int) {
		recs, rest, bad := parseLog(logBytes[parsedUpTo:])
		if inBase && rest != 0 {
			// a torn tail in the image the run started from is legitimate (it is a crash image);
			// the engine truncates the log at start-up before appending
			rest, bad = 0, ""
		}
		if rest != 0 || bad != "" {
			viol = append(viol, WalViolation{Class: "log-not-parsable", Event: ev, Msg: fmt.Sprintf("after this WriteLog the log file has %d trailing bytes that are not a complete record: %s", rest, bad)})
		}
		if len(recs) > st.MaxRecsPerWrite {
			st.MaxRecsPerWrite = len(recs)
		}
		for _, r := range recs {
			st.Records++
			if r.Type == ltDeallocatePage || r.Type == ltReusePage || r.Type == ltGracefulShutdown {
				continue
			}
			durable[r.LSN] = true
			if r.LSN > maxDurable {
				maxDurable = r.LSN
			}
			if prev, ok := lastLSN[r.Txn]; ok && r.LSN <= prev {
				viol = append(viol, WalViolation{Class: "lsn-not-increasing", Event: ev, LSN: r.LSN, Msg: fmt.Sprintf("txn %d: record %v follows lsn %d", r.Txn, r, prev)})
			}
			lastLSN[r.Txn] = r.LSN
			if prev, ok := lastAny[r.Txn]; ok {
				if r.PrevLSN != prev {
					viol = append(viol, WalViolation{Class: "prevlsn-chain-broken", Event: ev, LSN: r.LSN, Msg: fmt.Sprintf("txn %d: record %v should link to %d", r.Txn, r, prev)})
				}
			} else if r.PrevLSN != -1 && r.Type == ltBegin {
				viol = append(viol, WalViolation{Class: "prevlsn-chain-broken", Event: ev, LSN: r.LSN, Msg: fmt.Sprintf("BEGIN record %v has a predecessor", r)})
			}
			lastAny[r.Txn] = r.LSN
			if r.Type == ltCommit {
				committed[r.Txn] = true
			}
		}
		parsedUpTo = len(logBytes) - rest
	}
	if len(logBytes) > 0 {
		reparse(-1)
		st.Records = 0
	}
	inBase = false
	for i := range events {
		ev := &events[i]
		switch ev.Kind {
		case 'L':
			st.LogWrites++
			st.LogBytes += len(ev.Data)
			logBytes = append(logBytes, ev.Data...)
			reparse(i)
		case 'G':
			st.GCs++
			logBytes = logBytes[:0]
			parsedUpTo = 0
			// everything logged so far is gone with the truncation; pages stamped with those LSNs
			// are judged against the high-water mark
			lastLSN = map[int32]int32{}
			lastAny = map[int32]int32{}
		case 'P':
			st.PageWrites++
			if !heapPages[ev.Page] || len(ev.Data) < 8 {
				continue
			}
			st.HeapPageWrites++
			lsn := int32(binary.LittleEndian.Uint32(ev.Data[4:]))
			if lsn <= 0 {
				continue // never stamped (LSN 0 is the start-up transaction's BEGIN)
			}
			if lsn <= lsnFloor || durable[lsn] {
				continue
			}
			if lsn <= maxDurable {
				// LSNs are handed out and flushed in order, so every LSN up to the durable
				// high-water mark has been on stable storage (possibly in a log truncated since)
				continue
			}
			viol = append(viol, WalViolation{Class: "page-before-log", Event: i, Page: ev.Page, LSN: lsn,
				Msg: fmt.Sprintf("WritePage(page %d) carries LSN %d but the highest LSN on stable storage is %d", ev.Page, lsn, maxDurable)})
		case 'M':
			if ev.Mark == "commit-returned" && ev.Arg2 == 1 {
				st.CommitsChecked++
				if !committed[int32(ev.Arg)] {
					viol = append(viol, WalViolation{Class: "commit-before-log", Event: i, Msg: fmt.Sprintf("commit of writing txn %d returned but its COMMIT record is not on stable storage", ev.Arg)})
				}
			}
		}
	}
	_ = math.MaxInt32
	return
}
