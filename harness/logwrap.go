package main

// logwrap.go: consim workload "logwrap" - two or three transactions each update their own wide rows
// in place several hundred times without committing, in a pool large enough that nothing is evicted: together they write more
// than the 528 KB log buffer holds, so the buffer is swapped and written while another task is
// appending. Used by C19 (race build: the log buffer, its offset and the buffer pointer must only be
// touched under the log latch), by C08 (M-WAL on the recorded trace) and for the final-state oracle.

import (
	"fmt"
	"strings"

	"github.com/ryogrid/SamehadaDB/lib/storage/disk"
	"verif/simrt"
)

func (cr *ConRun) runLogWrap() {
	cfg := &cr.Cfg
	path := cr.Dir + "/db"
	removeDBFiles(path)
	backgroundOff()
	simrt.SeedRun(cr.Seed, cfg.MapPermute)
	wr := newRng(simrt.Mix(cr.Seed, 47))
	nT := 3 + wr.Intn(4) // several appenders: one of them is likely to be about to append while another one flushes
	const ownRows = 6
	wide := 200 + wr.Intn(30)
	perTask := (700*1024/(2*(wide+30)))/nT + wr.Intn(60) // an in-place update logs the old and the new row image
	type rowSpec struct {
		k, v int32
		s    string
	}
	var initRows []rowSpec
	for t := 0; t < nT; t++ {
		for i := 0; i < ownRows; i++ {
			initRows = append(initRows, rowSpec{int32(t*100 + i), int32(t*100 + i), wr.Str(wide)})
		}
	}
	type upd struct{ k, v int32 }
	progs := make([][]upd, nT)
	aborts := make([]bool, nT)
	tok := int32(1000)
	for t := 0; t < nT; t++ {
		for i := 0; i < perTask; i++ {
			tok++
			progs[t] = append(progs[t], upd{int32(t*100 + wr.Intn(ownRows)), tok})
		}
		aborts[t] = wr.Chance(0.15)
	}
	var rec *disk.SimRecorder
	if !raceEnabled {
		rec = &disk.SimRecorder{}
		disk.SimRec = rec
		defer func() { disk.SimRec = nil }()
	}
	outcome := make([]string, nT)
	var final [][]any
	cr.Res = simrt.Run(cr.simConfig(), func() {
		s, pi := OpenSUT(path, 700)
		if pi != nil {
			cr.SetupErr = "open: " + pi.String()
			return
		}
		if res := s.AutoSQL("CREATE TABLE t(k INT, v INT, s VARCHAR(512));"); !res.OK() {
			cr.SetupErr = "create"
			return
		}
		for _, r := range initRows {
			if res := s.AutoSQL(fmt.Sprintf("INSERT INTO t(k, v, s) VALUES (%d, %d, '%s');", r.k, r.v, r.s)); !res.OK() {
				cr.SetupErr = "insert"
				return
			}
		}
		s.RefreshStats()
		simrt.S.ArmPCT(int64(60000 * nT))
		var tasks []*simrt.Task
		for t := 0; t < nT; t++ {
			t := t
			tasks = append(tasks, simrt.S.Spawn(fmt.Sprintf("bulk-%d", t), func() {
				tx, pi := s.Begin()
				if pi != nil {
					panic("begin: " + pi.Val)
				}
				for _, r := range progs[t] {
					progressTick()
					res := tx.Exec(fmt.Sprintf("UPDATE t SET v = %d WHERE k = %d;", r.v, r.k))
					if res.Panic != nil {
						panic("update: " + res.Panic.String())
					}
					if res.Aborted || res.Err != nil {
						tx.Abort()
						outcome[t] = "conflict-aborted"
						return
					}
				}
				if aborts[t] {
					if pe := tx.Abort(); pe != nil {
						panic("abort: " + pe.String())
					}
					outcome[t] = "aborted"
					return
				}
				disk.SimMark("commit-called", tx.ID(), 1)
				if pe := tx.Commit(); pe != nil {
					panic("commit: " + pe.String())
				}
				disk.SimMark("commit-returned", tx.ID(), 1)
				outcome[t] = "committed"
			}))
		}
		for _, tk := range tasks {
			simrt.S.Join(tk)
		}
		rows, _, r := s.ScanHeap("t")
		if r.OK() {
			final = rows
		} else {
			cr.SetupErr = fmt.Sprintf("final scan: %v %v", r.Err, r.Panic)
		}
		s.DB.Shutdown()
		s.closed = true
	})
	cr.stat("steps", int(cr.Res.Steps))
	cr.stat("decisions", int(cr.Res.Decisions))
	cr.stat("preemptions", int(cr.Res.Preemptions))
	cr.faultStats()
	cr.stat("outcome:"+cr.Res.Outcome, 1)
	cr.stat("logwrap_runs", 1)
	if rec != nil {
		for i := range rec.Events {
			if rec.Events[i].Kind == 'L' && len(rec.Events[i].Data) > 400_000 {
				cr.stat("log_buffer_wrap_writes_under_concurrency", 1)
			}
		}
	}
	switch cr.Res.Outcome {
	case "deadlock":
		cr.viol(txnWorkloadProp("C12"), "no-progress:deadlock", strings.Join(firstN(cr.Res.Blocked, 12), "; "))
		return
	case "panic":
		cr.Viol = append(cr.Viol, Violation{Property: txnWorkloadProp("C04"), Class: "panic-under-concurrency", Detail: fmt.Sprintf("task %s: %s [%s]", cr.Res.PanicTask, cr.Res.PanicVal, repoFrames(cr.Res.PanicStack, 6)), Site: panicSite(cr.Res.PanicStack)})
		return
	case "ok":
	default:
		cr.stat("inconclusive_"+cr.Res.Outcome, 1)
		return
	}
	if cr.SetupErr != "" {
		cr.viol("C04", "setup-or-final-statement-failed", cr.SetupErr)
		return
	}
	if rec != nil {
		wv, wst := walMonitor(nil, rec.Events, map[int32]bool{0: true, 1: true}, -1)
		cr.stat("wal_log_writes", wst.LogWrites)
		cr.stat("wal_commits_checked", wst.CommitsChecked)
		seenW := map[string]bool{}
		for _, v := range wv {
			if !seenW[v.Class] {
				seenW[v.Class] = true
				cr.Viol = append(cr.Viol, Violation{Property: "C08", Class: v.Class + "@concurrent-logwrap", Detail: v.Msg})
			}
		}
	}
	// final state: the rows of a committed task hold its last value, all others their initial value
	want := map[int32]int32{}
	str := map[int32]string{}
	for _, r := range initRows {
		want[r.k] = r.v
		str[r.k] = r.s
	}
	for t := 0; t < nT; t++ {
		cr.stat("txn:"+outcome[t], 1)
		if outcome[t] == "committed" {
			for _, u := range progs[t] {
				want[u.k] = u.v
			}
		}
	}
	seen := map[int32]bool{}
	for _, r := range final {
		k, _ := r[0].(int32)
		v, _ := r[1].(int32)
		sv, _ := r[2].(string)
		w, ok := want[k]
		switch {
		case !ok || seen[k]:
			cr.viol("C05", "final-state-not-serial", fmt.Sprintf("row %d appears %v after an update-only run", k, map[bool]string{true: "twice", false: "although it was never inserted"}[ok]))
			return
		case w != v:
			prop, class := "C05", "final-state-not-serial"
			if t := int(k) / 100; t < nT && outcome[t] != "committed" {
				prop, class = "C03", "aborted-write-survives"
			}
			cr.viol(prop, class, fmt.Sprintf("row %d holds v=%d, expected %d (its writer %s)", k, v, w, outcome[int(k)/100]))
			return
		case sv != str[k]:
			cr.viol("C05", "final-state-not-serial", fmt.Sprintf("row %d: the varchar column changed although no statement wrote it", k))
			return
		}
		seen[k] = true
	}
	if len(seen) != len(want) {
		cr.viol("C05", "final-state-not-serial", fmt.Sprintf("%d of %d rows are missing after an update-only run", len(want)-len(seen), len(want)))
	}
}
