package main

// txnprog.go: multi-statement transaction programs over a small table with unique written values,
// their recorded histories, and the C04 (statement visibility) and C05 (item-level serializability)
// oracles. Two executors share this code: txnsim (single driver, statement-granularity
// interleavings, enumerated without replacement) and the consim "txn" workload (one task per
// transaction under the controlled scheduler: sub-statement interleavings).

import (
	"encoding/json"
	"fmt"
	"os"
	"sort"
	"strings"

	"verif/simrt"
)

type PStmt struct {
	Kind  string `json:"kind"` // read | readrange | write | writerange | insert | delete
	K     int32  `json:"k"`
	K2    int32  `json:"k2,omitempty"`
	Token int32  `json:"token,omitempty"`
	Path  string `json:"path,omitempty"` // "" index path (no OR) | "scan" (OR form: sequential scan)
}

func (p PStmt) SQL() string {
	or := func(a string) string {
		if p.Path == "scan" {
			return a + " OR " + a
		}
		return a
	}
	switch p.Kind {
	case "read":
		return "SELECT k, v FROM t WHERE " + or(fmt.Sprintf("k = %d", p.K)) + ";"
	case "readv":
		return fmt.Sprintf("SELECT k, v FROM t WHERE v = %d;", p.Token)
	case "readrange":
		if p.Path == "scan" {
			return fmt.Sprintf("SELECT k, v FROM t WHERE k = %d OR k = %d;", p.K, p.K2)
		}
		return fmt.Sprintf("SELECT k, v FROM t WHERE k >= %d AND k <= %d;", p.K, p.K2)
	case "write":
		return fmt.Sprintf("UPDATE t SET v = %d WHERE ", p.Token) + or(fmt.Sprintf("k = %d", p.K)) + ";"
	case "writerange":
		return fmt.Sprintf("UPDATE t SET v = %d WHERE k >= %d AND k <= %d;", p.Token, p.K, p.K2)
	case "insert":
		return fmt.Sprintf("INSERT INTO t(k, v) VALUES (%d, %d);", p.K, p.Token)
	case "delete":
		return "DELETE FROM t WHERE " + or(fmt.Sprintf("k = %d", p.K)) + ";"
	}
	return "?"
}

func (p PStmt) keys(rows int) []int32 {
	switch p.Kind {
	case "readv":
		return nil
	case "readrange", "writerange":
		var ks []int32
		if p.Path == "scan" && p.Kind == "readrange" {
			ks = append(ks, p.K)
			if p.K2 != p.K {
				ks = append(ks, p.K2)
			}
			return ks
		}
		for k := p.K; k <= p.K2; k++ {
			ks = append(ks, k)
		}
		return ks
	}
	return []int32{p.K}
}

type TxnProg struct {
	Stmts []PStmt `json:"stmts"`
	Abort bool    `json:"abort"` // explicit abort at the end instead of commit
}

// one executed statement
type HStmt struct {
	Idx    int     `json:"idx"`
	St     PStmt   `json:"stmt"`
	Call   int64   `json:"call"`
	Ret    int64   `json:"ret"`
	Status string  `json:"status"` // ok | aborted
	Rows   [][]any `json:"rows,omitempty"`
}

type HTxn struct {
	ID      int     `json:"id"`
	Stmts   []HStmt `json:"stmts"`
	Outcome string  `json:"outcome"` // committed | aborted | conflict-aborted
	EndCall int64   `json:"end_call"`
	EndRet  int64   `json:"end_ret"`
}

func genProgs(r *rng, n int, rows int, nextToken *int32, nextKey *int32, allowInsDel bool) []TxnProg {
	progs := make([]TxnProg, n)
	for i := range progs {
		ns := 2 + r.Intn(3)
		var lastRead int32 = -1
		for j := 0; j < ns; j++ {
			k := int32(1 + r.Intn(rows))
			st := PStmt{K: k}
			if r.Chance(0.3) {
				st.Path = "scan"
			}
			switch x := r.Intn(10); {
			case x <= 2:
				st.Kind = "read"
				if r.Chance(0.3) {
					st.Path = "point" // plan-level index point scan
				}
				lastRead = k
			case (x == 3 || x == 2) && r.Chance(0.6):
				// read through the index on the value column (plan-level point scan or SQL)
				st.Kind = "readv"
				st.K = 0
				if *nextToken > 1000 && r.Chance(0.35) {
					st.Token = 1001 + int32(r.Intn(int(*nextToken-1000)))
				} else {
					st.Token = k
				}
				st.Path = []string{"", "point"}[r.Intn(2)]
			case x == 3:
				st.Kind = "readrange"
				st.K2 = k + int32(r.Intn(2)) + 1
				if st.K2 > int32(rows) {
					st.K2 = int32(rows)
				}
				if st.K2 < st.K {
					st.K2 = st.K
				}
			case x <= 6:
				st.Kind = "write"
				*nextToken++
				st.Token = *nextToken
				// read-modify-write on the row just read, or write skew (another row)
				if lastRead > 0 && r.Chance(0.6) {
					st.K = lastRead
				}
			case x == 7:
				st.Kind = "writerange"
				st.Path = ""
				st.K2 = k + 1
				if st.K2 > int32(rows) {
					st.K2 = int32(rows)
				}
				*nextToken++
				st.Token = *nextToken
			case x == 8 && allowInsDel && r.Chance(0.5):
				// delete a row and insert it again under the same key (new row id, same key)
				progs[i].Stmts = append(progs[i].Stmts, PStmt{Kind: "delete", K: k, Path: st.Path})
				st.Kind = "insert"
				st.K = k
				*nextToken++
				st.Token = *nextToken
			case x == 8 && allowInsDel:
				st.Kind = "insert"
				*nextKey++
				st.K = *nextKey
				*nextToken++
				st.Token = *nextToken
			case x == 9 && allowInsDel:
				st.Kind = "delete"
			default:
				st.Kind = "read"
				lastRead = k
			}
			progs[i].Stmts = append(progs[i].Stmts, st)
		}
		progs[i].Abort = r.Chance(0.15)
	}
	return progs
}

// genDuel: two short transactions on one row - a reader through one access path against a writer
// of the same row. The runs are a few hundred steps long, so a scheduler with a handful of change
// points puts the writer's whole statement and commit between two particular steps of the reader
// (index look-up -> row fetch) far more often than in the general programs.
func genDuel(r *rng, rows int, nextToken *int32, allowInsDel bool) []TxnProg {
	k := int32(1 + r.Intn(rows))
	var rd PStmt
	switch r.Intn(4) {
	case 0:
		rd = PStmt{Kind: "readv", Token: k, Path: []string{"", "point"}[r.Intn(2)]}
	case 1:
		rd = PStmt{Kind: "read", K: k, Path: []string{"", "point", "scan"}[r.Intn(3)]}
	case 2:
		rd = PStmt{Kind: "readrange", K: k, K2: k}
		if k < int32(rows) && r.Chance(0.5) {
			rd.K2 = k + 1
		}
	default:
		rd = PStmt{Kind: "readv", Token: k, Path: "point"}
	}
	reader := TxnProg{Stmts: []PStmt{rd}}
	if r.Chance(0.4) {
		reader.Stmts = append(reader.Stmts, rd) // the same read again: must see the same committed value
	}
	*nextToken++
	wr := PStmt{Kind: "write", K: k, Token: *nextToken}
	if r.Chance(0.2) {
		wr.Path = "scan"
	}
	if allowInsDel && r.Chance(0.2) {
		wr = PStmt{Kind: "delete", K: k}
	}
	writer := TxnProg{Stmts: []PStmt{wr}, Abort: r.Chance(0.15)}
	if r.Chance(0.4) {
		// the row moves to another row id under the same key: delete + insert inside one transaction
		*nextToken++
		writer.Stmts = []PStmt{{Kind: "delete", K: k}, {Kind: "insert", K: k, Token: *nextToken}}
	}
	if r.Chance(0.3) {
		*nextToken++
		writer.Stmts = append(writer.Stmts, PStmt{Kind: "write", K: k, Token: *nextToken})
	}
	if r.Chance(0.5) {
		return []TxnProg{reader, writer}
	}
	return []TxnProg{writer, reader}
}

// ---------------------------------------------------------------- oracles over a history

type txnOracle struct {
	rows      int
	init      map[int32]int32 // initial value per key
	writer    map[int32]int   // token -> txn id (-1 initial)
	hist      []HTxn
	stmtLevel bool           // statements did not overlap (single driver): exact visibility oracle applies
	vol       map[int32]bool // see volatileKeys
}

func newOracle(rows int, hist []HTxn, stmtLevel bool) *txnOracle {
	o := &txnOracle{rows: rows, init: map[int32]int32{}, writer: map[int32]int{}, hist: hist, stmtLevel: stmtLevel}
	for k := 1; k <= rows; k++ {
		o.init[int32(k)] = int32(k)
		o.writer[int32(k)] = -1
	}
	for _, t := range hist {
		for _, s := range t.Stmts {
			if s.St.Token != 0 && s.St.Kind != "readv" {
				o.writer[s.St.Token] = t.ID
			}
		}
	}
	return o
}

func (o *txnOracle) txn(id int) *HTxn {
	for i := range o.hist {
		if o.hist[i].ID == id {
			return &o.hist[i]
		}
	}
	return nil
}

// netEffect of a committed transaction on a key, computed by replaying the committed transactions
// in commit order on the row state (an UPDATE or DELETE of a key that does not exist in the
// transaction's view changes nothing).
type netEff struct {
	txn             int
	token           int32
	del             bool
	endCall, endRet int64
}

func (o *txnOracle) effects() (map[int32][]netEff, []*HTxn) {
	state := map[int32]int32{}
	for k, v := range o.init {
		state[k] = v
	}
	var committed []*HTxn
	for i := range o.hist {
		if o.hist[i].Outcome == "committed" {
			committed = append(committed, &o.hist[i])
		}
	}
	// serial order = order in which the commits were *called*: a conflicting successor can touch the
	// row only after the predecessor's commit has begun (its effects are applied and its locks are
	// released inside Commit), while commit *returns* may overtake each other
	sort.SliceStable(committed, func(i, j int) bool { return committed[i].EndCall < committed[j].EndCall })
	out := map[int32][]netEff{}
	for _, t := range committed {
		view := map[int32]int32{}
		for k, v := range state {
			view[k] = v
		}
		changed := map[int32]bool{}
		var order []int32
		touch := func(k int32) {
			if !changed[k] {
				changed[k] = true
				order = append(order, k)
			}
		}
		for _, s := range t.Stmts {
			if s.Status != "ok" {
				continue
			}
			switch s.St.Kind {
			case "write", "writerange":
				for _, k := range s.St.keys(o.rows) {
					if _, ok := view[k]; ok {
						view[k] = s.St.Token
						touch(k)
					}
				}
			case "insert":
				view[s.St.K] = s.St.Token
				touch(s.St.K)
			case "delete":
				for _, k := range s.St.keys(o.rows) {
					if _, ok := view[k]; ok {
						delete(view, k)
						touch(k)
					}
				}
			}
		}
		for _, k := range order {
			v, present := view[k]
			out[k] = append(out[k], netEff{t.ID, v, !present, t.EndCall, t.EndRet})
		}
		state = view
	}
	o.vol = volatileKeys(o.rows, o.hist)
	for k := range o.vol {
		delete(out, k)
	}
	return out, committed
}

// c04 checks every successful read: each returned value was written by the reader itself, is the
// initial value, or was written by a transaction that committed and whose commit had begun when
// the read returned (no dirty read), and was not overwritten by a commit that returned before the
// read was invoked (no stale read); a committed row that nobody else touched during the window
// must not be hidden.
func (o *txnOracle) c04() []Violation {
	var vs []Violation
	add := func(class, detail string) {
		vs = append(vs, Violation{Property: "C04", Class: class, Detail: detail})
	}
	writes, _ := o.effects()
	for _, t := range o.hist {
		own := map[int32]int32{}   // own latest token per key
		ownDef := map[int32]bool{} // ... and whether the write certainly happened (see below)
		ownDel := map[int32]bool{}
		for _, s := range t.Stmts {
			if s.Status != "ok" {
				continue
			}
			switch s.St.Kind {
			case "write", "writerange", "insert":
				// an UPDATE only touches rows that exist in the txn's view; track tokens anyway
				for _, k := range s.St.keys(o.rows) {
					own[k] = s.St.Token
					if s.St.Kind == "insert" {
						delete(ownDel, k)
						ownDef[k] = true
						continue
					}
					// an UPDATE writes the row only if it exists in the transaction's view: that is certain
					// when the row was present by every commit that returned before the statement was
					// invoked and no other transaction's commit of a change to it was in flight during the
					// statement (a delete whose commit had begun may or may not be seen)
					if ownDef[k] {
						continue // already written by this transaction: it holds the row's X lock
					}
					if o.vol[k] {
						continue // existence depends on timing: not claimed
					}
					present := int(k) <= o.rows
					ambiguous := false
					for _, c := range writes[k] {
						if c.txn == t.ID {
							continue
						}
						if c.endRet < s.Call {
							present = !c.del
						} else if c.endCall <= s.Ret {
							ambiguous = true
						}
					}
					ownDef[k] = present && !ambiguous
				}
			case "delete":
				for _, k := range s.St.keys(o.rows) {
					ownDel[k] = true
				}
			case "read", "readrange", "readv":
				seen := map[int32]bool{}
				for _, r := range s.Rows {
					k, _ := r[0].(int32)
					v, _ := r[1].(int32)
					seen[k] = true
					if s.St.Kind == "readv" && v != s.St.Token {
						add("answer-violates-predicate", fmt.Sprintf("txn %d %s returned (%d,%d)", t.ID, s.St.SQL(), k, v))
						continue
					}
					if tok, ok := own[k]; ok && tok == v {
						continue // own write
					}
					w, known := o.writer[v]
					if v == o.init[k] {
						w, known = -1, true
					}
					if !known {
						add("value-from-nowhere", fmt.Sprintf("txn %d %s returned (%d,%d) which no statement wrote", t.ID, s.St.SQL(), k, v))
						continue
					}
					if w == t.ID {
						// an earlier own write (token already replaced in `own` by a later one): stale own read
						if own[k] != v {
							add("own-write-not-visible", fmt.Sprintf("txn %d %s returned (%d,%d) but the txn had already written %d", t.ID, s.St.SQL(), k, v, own[k]))
						}
						continue
					}
					if w >= 0 {
						wt := o.txn(w)
						if wt.Outcome != "committed" {
							add("dirty-read", fmt.Sprintf("txn %d %s returned (%d,%d) written by txn %d which %s", t.ID, s.St.SQL(), k, v, w, wt.Outcome))
							continue
						}
						if wt.EndCall > s.Ret {
							add("dirty-read", fmt.Sprintf("txn %d %s returned (%d,%d) at step %d, written by txn %d whose commit started at step %d", t.ID, s.St.SQL(), k, v, s.Ret, w, wt.EndCall))
							continue
						}
					}
					if _, ok := own[k]; ok && ownDef[k] {
						add("own-write-not-visible", fmt.Sprintf("txn %d %s returned (%d,%d) although the txn itself wrote %d", t.ID, s.St.SQL(), k, v, own[k]))
						continue
					}
					// stale: a later committed version whose commit returned before this read was invoked
					ws := writes[k]
					pos := -1
					for i, c := range ws {
						if c.token == v && !c.del {
							pos = i
						}
					}
					for i := pos + 1; i < len(ws); i++ {
						if ws[i].endRet < s.Call && ws[i].txn != t.ID {
							add("stale-read", fmt.Sprintf("txn %d %s (steps %d-%d) returned (%d,%d) but txn %d had overwritten it and its commit returned at step %d", t.ID, s.St.SQL(), s.Call, s.Ret, k, v, ws[i].txn, ws[i].endRet))
							break
						}
					}
				}
				// a read through the index on the value column: a row whose committed value equals the token
				// before the statement and which no commit changes during the statement must be returned
				if s.St.Kind == "readv" {
					for k := int32(1); k <= int32(o.rows); k++ {
						if seen[k] || ownDel[k] || o.vol[k] {
							continue
						}
						if _, mine := own[k]; mine {
							continue
						}
						val := o.init[k]
						present, touched := true, false
						for _, c := range writes[k] {
							if c.endRet < s.Call {
								present, val = !c.del, c.token
							} else if c.endCall <= s.Ret {
								touched = true
							}
						}
						if !present || touched || val != s.St.Token {
							continue
						}
						// was another transaction in the middle of changing this row (statement done, not ended)?
						openWriter := -1
						for i := range o.hist {
							w := &o.hist[i]
							if w.ID == t.ID {
								continue
							}
							for _, ws := range w.Stmts {
								// the writer's statement had started before the read returned, and the writer had
								// not ended (commit or abort completed) before the read started
								if ws.Call > s.Ret || (w.EndRet != 0 && w.EndRet < s.Call) {
									continue
								}
								switch ws.St.Kind {
								case "write", "writerange":
									for _, wk := range ws.St.keys(o.rows) {
										if wk == k {
											openWriter = w.ID
										}
									}
								}
							}
						}
						if openWriter >= 0 {
							add("committed-row-hidden-by-uncommitted-key-update", fmt.Sprintf("txn %d %s (steps %d-%d) does not return key %d (committed value %d) and was not aborted: txn %d had changed the indexed value of that row and had not ended", t.ID, s.St.SQL(), s.Call, s.Ret, k, val, openWriter))
						} else {
							add("committed-row-hidden", fmt.Sprintf("txn %d %s (steps %d-%d) does not return key %d although its committed value is %d before the statement and no commit changes it during the statement", t.ID, s.St.SQL(), s.Call, s.Ret, k, val))
						}
					}
				}
				// hiding: a key in the statement's range whose committed state is "present" for the
				// whole window (no other writer of it committed or was in flight in the window) must appear
				for _, k := range s.St.keys(o.rows) {
					if seen[k] || ownDel[k] || o.vol[k] {
						continue
					}
					if _, ok := own[k]; ok {
						// own insert / own update of a row that certainly existed must be visible
						if ownDef[k] {
							add("own-write-not-visible", fmt.Sprintf("txn %d %s does not return key %d which the txn itself wrote", t.ID, s.St.SQL(), k))
						}
						continue
					}
					present := int(k) <= o.rows
					deletedInWindow := false
					for _, c := range writes[k] {
						if c.txn == t.ID {
							continue
						}
						if c.endRet < s.Call {
							present = !c.del
						} else if c.endCall <= s.Ret && c.del {
							// a commit that removes the row was in flight during the window: the row may
							// legitimately be absent from the answer
							deletedInWindow = true
						}
					}
					// the row exists before the statement and in the state after every commit that overlaps
					// the statement (changed, even deleted and re-inserted inside one transaction, but never
					// absent): some version of it must be returned. Uncommitted writers overlapping the
					// window make the row unreadable -> the statement would have aborted, not hidden the row
					if present && !deletedInWindow {
						add("committed-row-hidden", fmt.Sprintf("txn %d %s (steps %d-%d) does not return key %d although the row exists before the statement and after every commit during it", t.ID, s.St.SQL(), s.Call, s.Ret, k))
					}
				}
			}
		}
	}
	return vs
}

// c05: item-level direct serialization graph over committed transactions.
func (o *txnOracle) c05() []Violation {
	var vs []Violation
	type ver struct {
		txn int
		tok int32
	}
	eff, committed := o.effects()
	versions := map[int32][]ver{}
	for k := range o.init {
		versions[k] = []ver{{-1, o.init[k]}}
	}
	for k, l := range eff {
		for _, e := range l {
			tok := e.token
			if e.del {
				tok = -int32(e.txn) - 1000000 // a deletion is a version too (never read)
			}
			versions[k] = append(versions[k], ver{e.txn, tok})
		}
	}
	edges := map[int]map[int]string{}
	addEdge := func(a, b int, why string) {
		if a == b || a < 0 || b < 0 {
			return
		}
		if edges[a] == nil {
			edges[a] = map[int]string{}
		}
		if _, ok := edges[a][b]; !ok {
			edges[a][b] = why
		}
	}
	for k, vl := range versions {
		for i := 1; i < len(vl); i++ {
			addEdge(vl[i-1].txn, vl[i].txn, fmt.Sprintf("ww(k=%d)", k))
		}
	}
	for _, t := range committed {
		firstRead := map[int32]int32{}
		wrote := map[int32]bool{}
		for _, s := range t.Stmts {
			if s.Status != "ok" {
				continue
			}
			switch s.St.Kind {
			case "write", "writerange", "insert", "delete":
				for _, k := range s.St.keys(o.rows) {
					wrote[k] = true
				}
			case "read", "readrange", "readv":
				for _, r := range s.Rows {
					k, _ := r[0].(int32)
					v, _ := r[1].(int32)
					if wrote[k] {
						continue
					}
					if prev, ok := firstRead[k]; ok && prev != v {
						vs = append(vs, Violation{Property: "C05", Class: "non-repeatable-read", Detail: fmt.Sprintf("txn %d read key %d as %d and later as %d without writing it", t.ID, k, prev, v)})
					}
					if _, ok := firstRead[k]; !ok {
						firstRead[k] = v
					}
					// WR and RW edges
					vl := versions[k]
					for i, x := range vl {
						if x.tok == v {
							addEdge(x.txn, t.ID, fmt.Sprintf("wr(k=%d,v=%d)", k, v))
							if i+1 < len(vl) {
								addEdge(t.ID, vl[i+1].txn, fmt.Sprintf("rw(k=%d,v=%d)", k, v))
							}
						}
					}
				}
			}
		}
	}
	// lost update: two committed txns read the same version of k and both wrote k
	// (a special case of a cycle; found by the cycle search as rw/ww edges)
	// cycle search
	color := map[int]int{}
	var stack []int
	var cyc []int
	var dfs func(u int) bool
	dfs = func(u int) bool {
		color[u] = 1
		stack = append(stack, u)
		var nb []int
		for v := range edges[u] {
			nb = append(nb, v)
		}
		sort.Ints(nb)
		for _, v := range nb {
			if color[v] == 1 {
				for i, x := range stack {
					if x == v {
						cyc = append([]int{}, stack[i:]...)
					}
				}
				return true
			}
			if color[v] == 0 && dfs(v) {
				return true
			}
		}
		stack = stack[:len(stack)-1]
		color[u] = 2
		return false
	}
	var nodes []int
	for u := range edges {
		nodes = append(nodes, u)
	}
	sort.Ints(nodes)
	for _, u := range nodes {
		if color[u] == 0 && dfs(u) {
			var parts []string
			for i, a := range cyc {
				b := cyc[(i+1)%len(cyc)]
				parts = append(parts, fmt.Sprintf("T%d -%s-> T%d", a, edges[a][b], b))
			}
			vs = append(vs, Violation{Property: "C05", Class: "serialization-cycle", Detail: strings.Join(parts, ", ")})
			break
		}
	}
	return vs
}

// ---------------------------------------------------------------- txnsim: statement-granularity interleavings (single driver)

type TxnSimCfg struct {
	Rows       int       `json:"rows"`
	Progs      []TxnProg `json:"progs"`
	Order      []int     `json:"order"` // interleaving: sequence of txn indexes (one entry per step: stmt or end)
	Frames     int       `json:"frames"`
	Stats      bool      `json:"stats"` // refresh statistics after set-up (index paths)
	MapPermute bool      `json:"map_permute"`
}

type txnSimResult struct {
	hist       []HTxn
	final      [][]any
	viol       []Violation
	infeasible string
	plans      map[string]int
}

func execTxnSim(seed uint64, cfg TxnSimCfg, dir string) (res txnSimResult) {
	progressTick()
	res.plans = map[string]int{}
	path := dir + "/db"
	removeDBFiles(path)
	backgroundOff()
	simrt.SeedRun(seed, cfg.MapPermute)
	if cfg.Frames < 16 {
		cfg.Frames = 16
	}
	s, pi := OpenSUT(path, cfg.Frames)
	if pi != nil {
		res.infeasible = pi.String()
		return
	}
	defer s.Crash()
	if r := s.AutoSQL("CREATE TABLE t(k INT, v INT);"); !r.OK() {
		res.infeasible = "create"
		return
	}
	for k := 1; k <= cfg.Rows; k++ {
		if r := s.AutoSQL(fmt.Sprintf("INSERT INTO t(k, v) VALUES (%d, %d);", k, k)); !r.OK() {
			res.infeasible = "insert"
			return
		}
	}
	if cfg.Stats {
		s.RefreshStats()
	}
	n := len(cfg.Progs)
	res.hist = make([]HTxn, n)
	pos := make([]int, n)
	txns := make([]*STxn, n)
	done := make([]bool, n)
	step := int64(0)
	for i := range res.hist {
		res.hist[i].ID = i
	}
	for _, ti := range cfg.Order {
		if ti >= n || done[ti] {
			continue
		}
		h := &res.hist[ti]
		if txns[ti] == nil {
			t, pi := s.Begin()
			if pi != nil {
				res.viol = append(res.viol, Violation{Property: "C04", Class: "panic", Detail: pi.String(), Site: pi.Site})
				return
			}
			txns[ti] = t
		}
		prog := &cfg.Progs[ti]
		if pos[ti] < len(prog.Stmts) {
			st := prog.Stmts[pos[ti]]
			step++
			hs := HStmt{Idx: pos[ti], St: st, Call: step}
			r := execPStmt(txns[ti], st)
			step++
			hs.Ret = step
			if r.Plan != "" {
				res.plans[st.Kind+":"+planKind(r.Plan)]++
			}
			if r.Panic != nil {
				res.viol = append(res.viol, Violation{Property: "C04", Class: "panic", Detail: st.SQL() + ": " + r.Panic.String(), Site: r.Panic.Site})
				return
			}
			pos[ti]++
			if r.Aborted || r.Err != nil {
				hs.Status = "aborted"
				h.Stmts = append(h.Stmts, hs)
				step++
				h.EndCall = step
				if pi := txns[ti].Abort(); pi != nil {
					res.viol = append(res.viol, Violation{Property: "C03", Class: "abort-panic", Detail: pi.String(), Site: pi.Site})
					return
				}
				step++
				h.EndRet = step
				h.Outcome = "conflict-aborted"
				done[ti] = true
				continue
			}
			hs.Status = "ok"
			hs.Rows = r.Rows
			h.Stmts = append(h.Stmts, hs)
			continue
		}
		// end of program
		step++
		h.EndCall = step
		var pi *PanicInfo
		if prog.Abort {
			pi = txns[ti].Abort()
			h.Outcome = "aborted"
		} else {
			pi = txns[ti].Commit()
			h.Outcome = "committed"
		}
		step++
		h.EndRet = step
		if pi != nil {
			res.viol = append(res.viol, Violation{Property: "C04", Class: "panic", Detail: "end of txn: " + pi.String(), Site: pi.Site})
			return
		}
		done[ti] = true
	}
	// finish whatever the order left open (commit)
	for ti := 0; ti < n; ti++ {
		if txns[ti] != nil && !done[ti] {
			h := &res.hist[ti]
			step++
			h.EndCall = step
			txns[ti].Abort()
			step++
			h.EndRet = step
			h.Outcome = "aborted"
			done[ti] = true
		}
	}
	rows, _, r := s.ScanHeap("t")
	if r.OK() {
		res.final = rows
	}
	return
}

// volatileKeys: keys whose *existence* is changed by one committed transaction (insert or delete) and
// which are also written by another committed transaction. Whether an UPDATE or DELETE of such a key
// found the row depends on the moment the statement ran, not on the commit order (the property exempts
// rows that newly match or stop matching a predicate: phantoms), so the commit-order replay that the
// oracles use says nothing reliable about them: they are left out of the state-based checks.
func volatileKeys(rows int, hist []HTxn) map[int32]bool {
	writers := map[int32]map[int]bool{}
	insDel := map[int32]bool{}
	for i := range hist {
		t := &hist[i]
		if t.Outcome != "committed" {
			continue
		}
		for _, s := range t.Stmts {
			if s.Status != "ok" {
				continue
			}
			switch s.St.Kind {
			case "write", "writerange", "insert", "delete":
				for _, k := range s.St.keys(rows) {
					if writers[k] == nil {
						writers[k] = map[int]bool{}
					}
					writers[k][t.ID] = true
					if s.St.Kind == "insert" || s.St.Kind == "delete" {
						insDel[k] = true
					}
				}
			}
		}
	}
	vol := map[int32]bool{}
	for k, ws := range writers {
		if len(ws) >= 2 && insDel[k] {
			vol[k] = true
		}
	}
	return vol
}

// hasDupKeys: two transactions that each found key k absent may both insert it (no uniqueness
// constraint, phantoms are allowed): the row-per-key model of the oracles does not apply to such a run.
func hasDupKeys(final [][]any) bool {
	seen := map[int32]bool{}
	for _, r := range final {
		k, _ := r[0].(int32)
		if seen[k] {
			return true
		}
		seen[k] = true
	}
	return false
}

// finalStateCheck: the final table equals the committed writes applied in commit order.
func finalStateCheck(rows int, hist []HTxn, final [][]any) *Violation {
	if hasDupKeys(final) {
		return nil
	}
	state := map[int32]int32{}
	for k := 1; k <= rows; k++ {
		state[int32(k)] = int32(k)
	}
	var committed []*HTxn
	for i := range hist {
		if hist[i].Outcome == "committed" {
			committed = append(committed, &hist[i])
		}
	}
	sort.SliceStable(committed, func(i, j int) bool { return committed[i].EndCall < committed[j].EndCall })
	for _, t := range committed {
		for _, s := range t.Stmts {
			if s.Status != "ok" {
				continue
			}
			switch s.St.Kind {
			case "write", "writerange":
				for _, k := range s.St.keys(rows) {
					if _, ok := state[k]; ok {
						state[k] = s.St.Token
					}
				}
			case "insert":
				state[s.St.K] = s.St.Token
			case "delete":
				for _, k := range s.St.keys(rows) {
					delete(state, k)
				}
			}
		}
	}
	vol := volatileKeys(rows, hist)
	var want [][]any
	for k, v := range state {
		if !vol[k] {
			want = append(want, []any{k, v})
		}
	}
	var finalStable [][]any
	for _, r := range final {
		if k, _ := r[0].(int32); !vol[k] {
			finalStable = append(finalStable, r)
		}
	}
	w, g := canonRows(want), canonRows(finalStable)
	if !sameStrings(w, g) {
		return &Violation{Property: "C05", Class: "final-state-not-serial", Detail: "final table differs from the committed writes applied in commit order: " + diffStrings(w, g)}
	}
	return nil
}

// abortTraceCheck (C03 under concurrency): nothing written by a transaction that aborted (explicitly or
// by a lock conflict in the middle of a statement) is in the final table, and no row such a
// transaction changed or deleted differs from what the committed transactions left.
func abortTraceCheck(rows int, hist []HTxn, final [][]any) *Violation {
	abortedTok := map[int32]int{}
	abortedKey := map[int32]int{}
	for i := range hist {
		t := &hist[i]
		if t.Outcome == "committed" || t.Outcome == "" {
			continue
		}
		for _, s := range t.Stmts {
			switch s.St.Kind {
			case "write", "writerange", "insert":
				abortedTok[s.St.Token] = t.ID
				for _, k := range s.St.keys(rows) {
					abortedKey[k] = t.ID
				}
			case "delete":
				for _, k := range s.St.keys(rows) {
					abortedKey[k] = t.ID
				}
			}
		}
	}
	got := map[int32]int32{}
	for _, r := range final {
		k, _ := r[0].(int32)
		v, _ := r[1].(int32)
		got[k] = v
		if id, ok := abortedTok[v]; ok {
			return &Violation{Property: "C03", Class: "aborted-write-survives", Detail: fmt.Sprintf("final table holds (%d,%d), written by txn %d which aborted", k, v, id)}
		}
	}
	// rows an aborted transaction touched must be exactly what the committed transactions left
	if v := finalStateCheck(rows, hist, final); v != nil {
		exp := map[int32]bool{}
		for k := int32(1); k <= int32(rows); k++ {
			exp[k] = true
		}
		vol := volatileKeys(rows, hist)
		for k, id := range abortedKey {
			if vol[k] {
				continue
			}
			if _, present := got[k]; !present && exp[k] {
				// deleted by nobody who committed?
				deletedByCommitted := false
				for i := range hist {
					if hist[i].Outcome != "committed" {
						continue
					}
					for _, s := range hist[i].Stmts {
						if s.St.Kind == "delete" && s.Status == "ok" {
							for _, kk := range s.St.keys(rows) {
								if kk == k {
									deletedByCommitted = true
								}
							}
						}
					}
				}
				if !deletedByCommitted {
					return &Violation{Property: "C03", Class: "aborted-change-not-restored", Detail: fmt.Sprintf("row %d, touched by txn %d which aborted, is missing from the final table although no committed transaction deleted it", k, id)}
				}
			}
		}
	}
	return nil
}

func init() {
	drivers["txnsim"] = runTxnSim
	replayers["txnsim"] = func(rf *ReplayFile) (bool, string) {
		var cfg TxnSimCfg
		if err := json.Unmarshal(rf.Cfg, &cfg); err != nil {
			return false, err.Error()
		}
		dir := fmt.Sprintf("%s/t", flScratch)
		os.MkdirAll(dir, 0755)
		defer os.RemoveAll(dir)
		vs := txnSimViolations(rf.Seed, cfg, dir)
		for _, v := range vs {
			if v.Key() == rf.Violation.Key() {
				return true, v.Key() + " " + v.Detail
			}
		}
		return false, "not reproduced"
	}
}

func txnSimViolations(seed uint64, cfg TxnSimCfg, dir string) []Violation {
	res := execTxnSim(seed, cfg, dir)
	if res.infeasible != "" {
		return nil
	}
	vs := res.viol
	if len(vs) == 0 && !hasDupKeys(res.final) {
		o := newOracle(cfg.Rows, res.hist, true)
		vs = append(vs, o.c04()...)
		vs = append(vs, o.c05()...)
		if v := finalStateCheck(cfg.Rows, res.hist, res.final); v != nil {
			vs = append(vs, *v)
		}
	}
	return vs
}

// allInterleavings counts the interleavings of programs with the given step counts (capped).
func countInterleavings(steps []int, cap_ int) int {
	total := 0
	for _, s := range steps {
		total += s
	}
	// multinomial
	res := 1
	rem := total
	for _, s := range steps {
		// C(rem, s)
		c := 1
		for i := 1; i <= s; i++ {
			c = c * (rem - s + i) / i
			if c > cap_*1000 {
				return cap_ + 1
			}
		}
		res *= c
		if res > cap_ {
			return cap_ + 1
		}
		rem -= s
	}
	return res
}

func runTxnSim(run int, seed uint64) RunReport {
	rep := RunReport{Stats: map[string]int{}}
	r := newRng(simrt.Mix(seed, 1))
	rows := 2 + r.Intn(4)
	nt := 2 + r.Intn(2)
	tok := int32(1000)
	nk := int32(rows)
	progs := genProgs(r, nt, rows, &tok, &nk, r.Chance(0.3))
	base := TxnSimCfg{Rows: rows, Progs: progs, Stats: r.Chance(0.6), MapPermute: r.Chance(0.5), Frames: []int{16, 64}[r.Intn(2)]}
	liveCfg = &base
	steps := make([]int, nt)
	for i, p := range progs {
		steps[i] = len(p.Stmts) + 1
	}
	limit := 40
	if flTier == "thorough" {
		limit = 300
	}
	total := countInterleavings(steps, limit)
	dir := fmt.Sprintf("%s/t", flScratch)
	os.MkdirAll(dir, 0755)
	defer os.RemoveAll(dir)
	// enumerate (all, if few) or sample without replacement
	seenOrd := map[string]bool{}
	var orders [][]int
	if total <= limit {
		var rec func(cur []int, left []int)
		rec = func(cur []int, left []int) {
			doneAll := true
			for i := range left {
				if left[i] > 0 {
					doneAll = false
					left[i]--
					rec(append(cur, i), left)
					left[i]++
				}
			}
			if doneAll {
				orders = append(orders, append([]int{}, cur...))
			}
		}
		rec(nil, append([]int{}, steps...))
		rep.Stats["programs_exhaustively_interleaved"] = 1
	} else {
		for len(orders) < limit {
			left := append([]int{}, steps...)
			var ord []int
			for {
				var c []int
				for i := range left {
					if left[i] > 0 {
						c = append(c, i)
					}
				}
				if len(c) == 0 {
					break
				}
				i := c[r.Intn(len(c))]
				left[i]--
				ord = append(ord, i)
			}
			k := fmt.Sprint(ord)
			if !seenOrd[k] {
				seenOrd[k] = true
				orders = append(orders, ord)
			}
		}
	}
	rep.Stats["interleavings"] = len(orders)
	other := map[string]int{}
	var sigs []string
	for _, ord := range orders {
		cfg := base
		cfg.Order = ord
		res := execTxnSim(seed, cfg, dir)
		if res.infeasible != "" {
			rep.Outcome, rep.Infeasible = "infeasible", res.infeasible
			return rep
		}
		for k, n := range res.plans {
			rep.Stats["plan:"+k] += n
		}
		vs := res.viol
		if len(vs) == 0 && !hasDupKeys(res.final) {
			o := newOracle(cfg.Rows, res.hist, true)
			vs = append(vs, o.c04()...)
			vs = append(vs, o.c05()...)
			if v := finalStateCheck(cfg.Rows, res.hist, res.final); v != nil {
				vs = append(vs, *v)
			}
		}
		var oc []string
		for _, h := range res.hist {
			oc = append(oc, h.Outcome)
			rep.Stats["txn:"+h.Outcome]++
		}
		sigs = append(sigs, fmt.Sprint(ord, oc))
		for _, v := range vs {
			if v.Property != flProp {
				other[v.Property+":"+v.Class]++
				continue
			}
			if len(rep.Viol) < 3 {
				rep.Viol = append(rep.Viol, ReplayFile{Property: v.Property, Driver: "txnsim", Seed: seed, Tier: flTier, Cfg: mustJSON(cfg), Violation: v, Minimised: false, OpsCount: len(ord)})
			}
		}
	}
	rep.Sig = shapeSig(sigs...)
	rep.EventHash = rep.Sig
	rep.Nontrivial = true
	pj, _ := json.Marshal(base)
	rep.Sample = map[string]any{"cfg": json.RawMessage(pj), "interleavings": len(orders), "exhaustive_for_program": total <= limit}
	if len(other) > 0 {
		rep.Extra = map[string]any{"other_property_observations": other}
	}
	rep.Outcome = "ok"
	if len(rep.Viol) > 0 {
		rep.Outcome = "violation"
	}
	return rep
}

// execPStmt runs a program statement: SQL through the planner, or the plan-level point scan.
func execPStmt(t *STxn, st PStmt) ExecResult {
	if st.Kind == "read" && st.Path == "point" {
		return t.PointScan("t", "k", st.K)
	}
	if st.Kind == "readv" && st.Path == "point" {
		return t.PointScan("t", "v", st.Token)
	}
	return t.Exec(st.SQL())
}
