package main

// drv_crash.go: the crashsim driver (C01, C02, C08, C20) — run, minimise, replay.

import (
	"encoding/json"
	"fmt"
	"os"
	"sort"
	"strings"
	"time"

	"verif/simrt"
)

func init() {
	drivers["crashsim"] = runCrashSim
	replayers["crashsim"] = replayCrashSim
}

func propsFor(prop string) map[string]bool {
	return map[string]bool{prop: true}
}

func crashOpts(cfg *CrashCfg, seed uint64, tier string) crashCheckOpts {
	o := crashCheckOpts{rnd: newRng(simrt.Mix(seed, 31)), maxImages: cfg.MaxImages, nested: cfg.Nested, idempotence: true}
	return o
}

func newCrashRun(seed uint64, cfg CrashCfg, tag string) *CrashRun {
	dir := fmt.Sprintf("%s/%s", flScratch, tag)
	os.MkdirAll(dir, 0755)
	return &CrashRun{Seed: seed, Cfg: cfg, Dir: dir}
}

func runCrashSim(run int, seed uint64) RunReport {
	rep := RunReport{Stats: map[string]int{}}
	wr := newRng(simrt.Mix(seed, 1))
	cfg := genCrashCfg(wr, flTier, flProp)
	if flProp == "C20" {
		cfg.Nested = 1
		if flTier == "thorough" {
			cfg.Nested = 2 + wr.Intn(2)
		}
	} else if flProp == "C10" {
		// table identity across crash restarts: plain crash points (and torn log tails), no nesting
		cfg.Nested = 0
		cfg.TornPages = false
		if cfg.NOps > 20 {
			cfg.NOps = 20
		}
	} else if wr.Chance(0.2) {
		cfg.Nested = 1
	}
	if flTier == "thorough" {
		cfg.MaxImages = 1200
	}
	if cfg.BulkLoser > 0 {
		cfg.Nested = 0
		cfg.MaxImages = 12
	}
	if cfg.BigTxn {
		// every image carries a ~1 MB log and a ~1300-row table: keep the exploration small
		cfg.Nested = 0
		cfg.MaxImages = 12
	}
	cr := newCrashRun(seed, cfg, "c")
	liveCfg, liveOps = &cr.Cfg, &cr.Ops
	cr.execute(nil, wr)
	defer os.RemoveAll(cr.Dir)
	if cr.Infeasible != "" {
		rep.Outcome = "infeasible"
		rep.Infeasible = cr.Infeasible
		return rep
	}
	e := cr.Exec
	rep.EventHash = hashEvents(cr.Events, fmt.Sprint(e.Outcomes))
	cr.stat("ops", len(cr.Ops))
	cr.stat("commits", e.Commits-cr.SetupCommits)
	cr.stat("aborts", e.Aborts)
	cr.stat("conflict_aborts", e.ConflictAborts)
	cr.stat("trace_events", len(cr.Events))
	for i := cr.SetupEnd; i < len(cr.Events); i++ {
		if cr.Events[i].Kind == 'L' && len(cr.Events[i].Data) > 400_000 {
			cr.stat("log_buffer_wrap_writes", 1)
		}
	}
	if cfg.BigTxn {
		cr.stat("big_txn_runs", 1)
	}
	for k, n := range e.PlanShapes {
		cr.stat("plan:"+k, n)
	}
	var allViol []Violation
	// engine panicked during the history itself: not a crash-recovery matter, but we still
	// explore the crash points of what was recorded
	if e.Panic != nil {
		cr.stat("history_panic", 1)
		allViol = append(allViol, Violation{Property: "C04", Class: "history-panic", Detail: e.Panic.Val, Site: e.Panic.Site})
	}
	for _, d := range e.Div {
		allViol = append(allViol, Violation{Property: "C04", Class: "pre-crash:" + d.Class, Detail: d.Detail})
	}
	// C08 monitor over the whole trace
	wv, wst := walMonitor(nil, cr.Events, cr.HeapPages, -1)
	cr.stat("wal_page_writes", wst.PageWrites)
	cr.stat("wal_heap_page_writes", wst.HeapPageWrites)
	cr.stat("wal_log_writes", wst.LogWrites)
	cr.stat("wal_records", wst.Records)
	cr.stat("wal_commits_checked", wst.CommitsChecked)
	for _, v := range wv {
		allViol = append(allViol, Violation{Property: "C08", Class: v.Class + "@" + phaseAt(cr.Events, v.Event), Detail: v.Msg, Faults: []Fault{{Kind: "none", After: v.Event}}})
	}
	if flProp != "C08" {
		o := crashOpts(&cr.Cfg, seed, flTier)
		cr.explore(o)
		allViol = append(allViol, cr.Viol...)
	}
	rep.Stats = cr.Stats
	// signature: shape of the op list + outcome list + I/O kinds sequence
	var sb strings.Builder
	for i, op := range cr.Ops {
		sb.WriteString(op.Kind)
		if op.Stmt != nil {
			sb.WriteString(":" + op.Stmt.Kind)
		}
		if i < len(e.Outcomes) {
			sb.WriteString("=" + e.Outcomes[i].Status)
		}
		sb.WriteByte(',')
	}
	for i := range cr.Events {
		if cr.Events[i].Kind != 'M' {
			sb.WriteByte(cr.Events[i].Kind)
		}
	}
	rep.Sig = shapeSig(sb.String())
	rep.Nontrivial = cr.Stats["fault:crash"]+cr.Stats["fault:torn_log"]+cr.Stats["fault:torn_page"] > 0 || (flProp == "C08" && wst.HeapPageWrites+wst.CommitsChecked > 0)
	opsJSON, _ := marshalOps(cr.Ops)
	rep.Sample = map[string]any{"cfg": cr.Cfg, "ops": json.RawMessage(opsJSON), "io_events": cr.Stats["io_events_after_setup"], "crash_images": cr.Stats["images"]}

	// report: group by key, minimise the first of each key
	seen := map[string]bool{}
	other := map[string]int{}
	for _, v := range allViol {
		if v.Property != flProp {
			other[v.Property+":"+v.Class]++
			continue
		}
		k := v.Key() + "/" + featureKey(v.Features)
		if seen[k] {
			continue
		}
		seen[k] = true
		rf := ReplayFile{Property: v.Property, Driver: "crashsim", Seed: seed, Tier: flTier, Cfg: mustJSON(cr.Cfg), Ops: opsJSON, Faults: v.Faults, Violation: v, OpsCount: len(cr.Ops)}
		if v.Property != "C08" && len(seen) <= 3 && mayMinimise() {
			if m := minimiseCrash(cr, v); m != nil {
				rf = *m
			}
		} else if v.Property == "C08" && len(seen) <= 3 && mayMinimise() {
			if m := minimiseWal(cr, v); m != nil {
				rf = *m
			}
		}
		rep.Viol = append(rep.Viol, rf)
	}
	if len(other) > 0 {
		rep.Extra = map[string]any{"other_property_observations": other}
	}
	if len(rep.Viol) > 0 {
		rep.Outcome = "violation"
	} else {
		rep.Outcome = "ok"
	}
	return rep
}

// featureKey: the finding-relevant part of a violation's features (stable across runs).
func featureKey(f map[string]bool) string {
	var ks []string
	for k, v := range f {
		if v && (strings.HasPrefix(k, "fault:") || k == "log:aborted-txn" || k == "log:newpage-beyond-eof" || k == "loser:APPLYDELETE" || k == "log:dealloc-reuse") {
			ks = append(ks, k)
		}
	}
	sort.Strings(ks)
	return strings.Join(ks, ",")
}

// ---------------------------------------------------------------- minimisation

// reproduce runs ops under cfg and looks for a violation with the same key; returns it (with its
// fault list on the new trace) or nil.
func reproduce(seed uint64, cfg CrashCfg, ops []Op, want Violation, tag string) (*CrashRun, *Violation) {
	cr := newCrashRun(seed, cfg, tag)
	defer os.RemoveAll(cr.Dir)
	cr.execute(ops, nil)
	if cr.Infeasible != "" {
		return cr, nil
	}
	o := crashOpts(&cr.Cfg, seed, "quick")
	o.idempotence = strings.HasPrefix(want.Class, "repeat-recovery")
	if want.Property != "C20" {
		o.nested = 0
	} else if o.nested == 0 {
		o.nested = 1
	}
	// deterministic and complete: all crash points, no sampling of nested runs
	o.maxImages = 1 << 30
	o.wantKey = want.Key()
	cr.explore(o)
	for i := range cr.Viol {
		v := &cr.Viol[i]
		if v.Key() == want.Key() {
			return cr, v
		}
	}
	return cr, nil
}

func minimiseCrash(cr0 *CrashRun, v Violation) *ReplayFile {
	deadline := time.Now().Add(45 * time.Second)
	cfg := cr0.Cfg
	ops := append([]Op{}, cr0.Ops...)
	best := v
	seed := cr0.Seed
	// cheaper configuration first: no torn variants unless the violation needs them
	needsTorn := false
	for _, f := range v.Faults {
		if strings.Contains(f.Kind, "torn") {
			needsTorn = true
		}
	}
	if !needsTorn {
		c2 := cfg
		c2.Torn, c2.TornPages = false, false
		if _, got := reproduce(seed, c2, ops, v, "m"); got != nil {
			cfg = c2
			best = *got
		}
	}
	// ddmin over ops
	n := 2
	for len(ops) >= 2 && time.Now().Before(deadline) {
		chunk := (len(ops) + n - 1) / n
		reduced := false
		for start := 0; start < len(ops) && time.Now().Before(deadline); start += chunk {
			end := start + chunk
			if end > len(ops) {
				end = len(ops)
			}
			cand := append(append([]Op{}, ops[:start]...), ops[end:]...)
			if len(cand) == 0 {
				continue
			}
			if _, got := reproduce(seed, cfg, cand, v, "m"); got != nil {
				ops = cand
				best = *got
				if n > 2 {
					n--
				}
				reduced = true
				break
			}
		}
		if !reduced {
			if chunk == 1 {
				break
			}
			n *= 2
			if n > len(ops) {
				n = len(ops)
			}
		}
	}
	// smaller set-up
	for _, ir := range []int{0, 3} {
		if cfg.InitRows > ir && time.Now().Before(deadline) {
			c2 := cfg
			c2.InitRows = ir
			if _, got := reproduce(seed, c2, ops, v, "m"); got != nil {
				cfg = c2
				best = *got
				break
			}
		}
	}
	if cfg.CleanRestartInSetup && time.Now().Before(deadline) {
		c2 := cfg
		c2.CleanRestartInSetup = false
		if _, got := reproduce(seed, c2, ops, v, "m"); got != nil {
			cfg = c2
			best = *got
		}
	}
	if cfg.Frames < 64 && time.Now().Before(deadline) {
		c2 := cfg
		c2.Frames = 64
		if _, got := reproduce(seed, c2, ops, v, "m"); got != nil {
			cfg = c2
			best = *got
		}
	}
	// final confirmation run with the minimised case
	_, got := reproduce(seed, cfg, ops, v, "m")
	if got == nil {
		return nil // keep the unminimised report
	}
	best = *got
	opsJSON, _ := marshalOps(ops)
	return &ReplayFile{Property: best.Property, Driver: "crashsim", Seed: seed, Tier: flTier, Cfg: mustJSON(cfg), Ops: opsJSON,
		Faults: best.Faults, Violation: best, Minimised: true, OpsCount: len(ops)}
}

func walViolationOf(cr *CrashRun, want Violation) *Violation {
	wv, _ := walMonitor(nil, cr.Events, cr.HeapPages, -1)
	for _, w := range wv {
		cls := w.Class + "@" + phaseAt(cr.Events, w.Event)
		if cls == want.Class {
			return &Violation{Property: "C08", Class: cls, Detail: w.Msg, Faults: []Fault{{Kind: "none", After: w.Event}}}
		}
	}
	return nil
}

func minimiseWal(cr0 *CrashRun, v Violation) *ReplayFile {
	deadline := time.Now().Add(30 * time.Second)
	cfg := cr0.Cfg
	ops := append([]Op{}, cr0.Ops...)
	seed := cr0.Seed
	try := func(c CrashCfg, o []Op) *Violation {
		cr := newCrashRun(seed, c, "m")
		defer os.RemoveAll(cr.Dir)
		cr.execute(o, nil)
		if cr.Infeasible != "" {
			return nil
		}
		return walViolationOf(cr, v)
	}
	best := v
	for i := len(ops) - 1; i >= 0 && time.Now().Before(deadline); i-- {
		cand := append(append([]Op{}, ops[:i]...), ops[i+1:]...)
		if got := try(cfg, cand); got != nil {
			ops = cand
			best = *got
		}
	}
	if got := try(cfg, ops); got == nil {
		return nil
	} else {
		best = *got
	}
	opsJSON, _ := marshalOps(ops)
	return &ReplayFile{Property: "C08", Driver: "crashsim", Seed: seed, Tier: flTier, Cfg: mustJSON(cfg), Ops: opsJSON, Faults: best.Faults, Violation: best, Minimised: true, OpsCount: len(ops)}
}

// ---------------------------------------------------------------- replay

func replayCrashSim(rf *ReplayFile) (bool, string) {
	var cfg CrashCfg
	if err := json.Unmarshal(rf.Cfg, &cfg); err != nil {
		return false, "bad cfg: " + err.Error()
	}
	ops, err := unmarshalOps(rf.Ops)
	if err != nil {
		return false, "bad ops: " + err.Error()
	}
	if rf.Property == "C08" {
		cr := newCrashRun(rf.Seed, cfg, "rp")
		defer os.RemoveAll(cr.Dir)
		cr.execute(ops, nil)
		if got := walViolationOf(cr, rf.Violation); got != nil {
			return true, got.Key() + " " + got.Detail
		}
		return false, "no WAL violation of class " + rf.Violation.Class
	}
	_, got := reproduce(rf.Seed, cfg, ops, rf.Violation, "rp")
	if got == nil {
		return false, "not reproduced"
	}
	// exactness: same fault list
	a, _ := json.Marshal(got.Faults)
	b, _ := json.Marshal(rf.Faults)
	if string(a) != string(b) {
		return true, got.Key() + " (same violation class at a different fault position: " + string(a) + ") " + got.Detail
	}
	return true, got.Key() + " " + got.Detail
}
