package main

// idxsim.go (C17): the four index kinds through the index.Index interface on a real (small) buffer
// pool against a sorted multimap. Sequential driver (registered as a unit driver) and the
// concurrent "index" workload of consim: tasks own disjoint key sets that interleave in key space,
// so every task's own lookups have exact expected answers while splits / node removals of
// different tasks collide; range scanners check the sound rule (never-touched entries exactly once,
// in order; nothing foreign).

import (
	"fmt"
	"os"
	"sort"
	"strings"

	"github.com/ryogrid/SamehadaDB/lib/catalog"
	"github.com/ryogrid/SamehadaDB/lib/storage/index"
	"github.com/ryogrid/SamehadaDB/lib/storage/index/index_constants"
	"github.com/ryogrid/SamehadaDB/lib/storage/page"
	"github.com/ryogrid/SamehadaDB/lib/storage/table/column"
	"github.com/ryogrid/SamehadaDB/lib/storage/table/schema"
	"github.com/ryogrid/SamehadaDB/lib/storage/tuple"
	"github.com/ryogrid/SamehadaDB/lib/types"
	"verif/simrt"
)

type idxEnv struct {
	s     *SUT
	idx   index.Index
	sc    *schema.Schema
	kind  string
	ktype ColType
	txn   *STxn
}

var idxKinds = map[string]index_constants.IndexKind{
	"skiplist": index_constants.IndexKindSkipList, "uniqskiplist": index_constants.IndexKindUniqSkipList,
	"btree": index_constants.IndexKindBtree, "hash": index_constants.IndexKindHash,
}

func openIdxEnv(path string, frames int, kind string, kt ColType) (*idxEnv, *PanicInfo) {
	s, pi := OpenSUT(path, frames)
	if pi != nil {
		return nil, pi
	}
	env := &idxEnv{s: s, kind: kind, ktype: kt}
	var pi2 *PanicInfo
	func() {
		defer s.catch(&pi2)
		tid := map[ColType]types.TypeID{TInt: types.Integer, TFloat: types.Float, TVarchar: types.Varchar}[kt]
		col := column.NewColumn("a", tid, true, idxKinds[kind], types.PageID(-1), nil)
		sc := schema.NewSchema([]*column.Column{col})
		txn := s.Shi.GetTransactionManager().Begin(nil)
		var tm *catalog.TableMetadata = s.Cat.CreateTable("ix", sc, txn)
		s.Shi.GetTransactionManager().Commit(s.Cat, txn)
		env.idx = tm.GetIndex(0)
		env.sc = tm.Schema()
	}()
	if pi2 != nil {
		return nil, pi2
	}
	t, pi3 := s.Begin()
	if pi3 != nil {
		return nil, pi3
	}
	env.txn = t
	return env, nil
}

func (e *idxEnv) keyTuple(v any) *tuple.Tuple {
	val := anyToValue(v, e.ktype)
	return tuple.NewTupleFromSchema([]types.Value{val}, e.sc)
}

func mkRID(n int) page.RID {
	var r page.RID
	r.Set(types.PageID(100+n/50), uint32(n%50))
	return r
}

type mmEntry struct {
	key any
	rid page.RID
}

// sorted multimap model
type mmap struct {
	ents []mmEntry
}

func (m *mmap) find(key any, rid page.RID) int {
	for i, e := range m.ents {
		if c, _ := cmpVals(e.key, key); c == 0 && e.rid == rid {
			return i
		}
	}
	return -1
}
func (m *mmap) insert(key any, rid page.RID) { m.ents = append(m.ents, mmEntry{key, rid}) }
func (m *mmap) remove(key any, rid page.RID) bool {
	if i := m.find(key, rid); i >= 0 {
		m.ents = append(m.ents[:i], m.ents[i+1:]...)
		return true
	}
	return false
}
func (m *mmap) lookup(key any) []string {
	var out []string
	for _, e := range m.ents {
		if c, _ := cmpVals(e.key, key); c == 0 {
			out = append(out, fmt.Sprint(e.rid))
		}
	}
	sort.Strings(out)
	return out
}
func (m *mmap) rangeScan(lo, hi any) []mmEntry {
	var out []mmEntry
	for _, e := range m.ents {
		if lo != nil {
			if c, _ := cmpVals(e.key, lo); c < 0 {
				continue
			}
		}
		if hi != nil {
			if c, _ := cmpVals(e.key, hi); c > 0 {
				continue
			}
		}
		out = append(out, e)
	}
	sort.SliceStable(out, func(i, j int) bool { c, _ := cmpVals(out[i].key, out[j].key); return c < 0 })
	return out
}

func ridStrs(rs []page.RID) []string {
	var out []string
	for _, r := range rs {
		out = append(out, fmt.Sprint(r))
	}
	sort.Strings(out)
	return out
}

// genKeyMaxPad: padding of long varchar keys (the B-tree index documents a key limit of MaxKeyLen-14 = 36 bytes)
var genKeyMaxPad = 170

// genKeyExtremes: boundary integer keys (a fifth of the runs; see known finding btree-extreme-int-key)
var genKeyExtremes = false

func genKey(r *rng, kt ColType, space int) any {
	switch kt {
	case TInt:
		if genKeyExtremes {
			switch r.Intn(20) {
			case 0:
				return int32(2147483646)
			case 1:
				return int32(-2147483647)
			}
		}
		return int32(r.Intn(space) - space/4)
	case TFloat:
		return float32(r.Intn(space)-space/4) / 4
	default:
		n := r.Intn(space)
		base := fmt.Sprintf("k%05d", n)
		if n%3 == 0 && genKeyMaxPad > 0 {
			return base + strings.Repeat("x", 1+n%genKeyMaxPad) // long keys: nodes fill up and split quickly
		}
		return base
	}
}

func runIdxSim(seed uint64, cfg UnitCfg, dir string) (res unitResult) {
	res.stats = map[string]int{}
	backgroundOff()
	simrt.SeedRun(seed, false)
	r := newRng(simrt.Mix(seed, 8))
	parts := strings.Split(cfg.Kind, ":")
	kind := parts[0]
	kt := map[string]ColType{"int": TInt, "float": TFloat, "varchar": TVarchar}[parts[1]]
	genKeyExtremes = seed%5 == 0
	genKeyMaxPad = 170
	if kind == "btree" {
		genKeyMaxPad = 15 // B-tree: encoded key (string + 12 bytes) must stay <= 36 bytes
	}
	path := dir + "/i"
	removeDBFiles(path)
	env, pi := openIdxEnv(path, cfg.Frames, kind, kt)
	if pi != nil {
		res.infeasible = pi.String()
		return
	}
	s := env.s
	defer s.Crash()
	var opLog []string
	m := &mmap{}
	at := 0
	nextRID := 0
	space := 40 + r.Intn(400)
	ordered := kind != "hash"
	uniq := kind == "uniqskiplist"
	var pi2 *PanicInfo
	func() {
		defer s.catch(&pi2)
		txn := env.txn.Txn
		checkKey := func(k any) *Violation {
			got := ridStrs(env.idx.ScanKey(env.keyTuple(k), txn))
			want := m.lookup(k)
			res.stats["point_lookups"]++
			if !sameStrings(want, got) {
				return unitViol("C17", "lookup-answer", fmt.Sprintf("%s index, key %s: ScanKey returns %v, model has %v", kind, canonVal(k), got, want), at)
			}
			return nil
		}
		checkRange := func(lo, hi any) *Violation {
			if !ordered {
				return nil
			}
			var lt, ht *tuple.Tuple
			if lo != nil {
				lt = env.keyTuple(lo)
			}
			if hi != nil {
				ht = env.keyTuple(hi)
			}
			itr := env.idx.GetRangeScanIterator(lt, ht, txn)
			var got []string
			n := 0
			for done, _, _, rid := itr.Next(); !done; done, _, _, rid = itr.Next() {
				got = append(got, fmt.Sprint(*rid))
				if n++; n > len(m.ents)+1000 {
					break
				}
			}
			want := m.rangeScan(lo, hi)
			res.stats["range_scans"]++
			if len(got) != len(want) {
				return unitViol("C17", "range-scan-answer", fmt.Sprintf("%s index, range [%v,%v]: %d entries returned, model has %d", kind, lo, hi, len(got), len(want)), at)
			}
			// same multiset and non-decreasing key order
			ws := make([]string, len(want))
			byRid := map[string]any{}
			for i, e := range want {
				ws[i] = fmt.Sprint(e.rid)
				byRid[ws[i]] = e.key
			}
			g2 := append([]string{}, got...)
			sort.Strings(g2)
			sort.Strings(ws)
			if !sameStrings(ws, g2) {
				return unitViol("C17", "range-scan-answer", fmt.Sprintf("%s index, range [%v,%v]: %s", kind, lo, hi, diffStrings(ws, g2)), at)
			}
			for i := 1; i < len(got); i++ {
				if c, ok := cmpVals(byRid[got[i-1]], byRid[got[i]]); ok && c > 0 {
					return unitViol("C17", "range-scan-order", fmt.Sprintf("%s index: entry %d (key %v) before entry %d (key %v)", kind, i-1, byRid[got[i-1]], i, byRid[got[i]]), at)
				}
			}
			return nil
		}
		for at = 0; at < cfg.NOps; at++ {
			var touched any
			switch k := r.Intn(10); {
			case k <= 4 || len(m.ents) == 0: // insert
				key := genKey(r, kt, space)
				if uniq && len(m.lookup(key)) > 0 {
					continue
				}
				if !uniq && len(m.ents) > 0 && r.Chance(0.3) {
					key = m.ents[r.Intn(len(m.ents))].key // duplicate key, new row id
				}
				if kind == "hash" && len(m.ents) > 1200 {
					continue // documented fixed capacity of the linear-probe table
				}
				rid := mkRID(nextRID)
				nextRID++
				env.idx.InsertEntry(env.keyTuple(key), rid, txn)
				m.insert(key, rid)
				opLog = append(opLog, fmt.Sprintf("ins %s %v", canonVal(key), rid))
				res.stats["op:insert"]++
				touched = key
			case k <= 7: // delete
				e := m.ents[r.Intn(len(m.ents))]
				env.idx.DeleteEntry(env.keyTuple(e.key), e.rid, txn)
				m.remove(e.key, e.rid)
				opLog = append(opLog, fmt.Sprintf("del %s %v", canonVal(e.key), e.rid))
				res.stats["op:delete"]++
				touched = e.key
			default: // update = delete + insert
				if kind == "hash" {
					continue // UpdateEntry of the hash index is "not implemented" (known gap, see DESIGN.md)
				}
				e := m.ents[r.Intn(len(m.ents))]
				nk := genKey(r, kt, space)
				if uniq && len(m.lookup(nk)) > 0 {
					continue
				}
				nr := e.rid
				if r.Chance(0.5) {
					nr = mkRID(nextRID)
					nextRID++
				}
				env.idx.UpdateEntry(env.keyTuple(e.key), e.rid, env.keyTuple(nk), nr, txn)
				m.remove(e.key, e.rid)
				m.insert(nk, nr)
				opLog = append(opLog, fmt.Sprintf("upd %s %v -> %s %v", canonVal(e.key), e.rid, canonVal(nk), nr))
				res.stats["op:update"]++
				touched = nk
				if v := checkKey(e.key); v != nil {
					res.viol = v
					return
				}
			}
			if idxTrace && len(opLog) > 0 {
				fmt.Fprintf(os.Stderr, "op %d %s\n", at, opLog[len(opLog)-1])
			}
			if v := checkKey(touched); v != nil {
				res.viol = v
				return
			}
			if v := checkKey(genKey(r, kt, space)); v != nil {
				res.viol = v
				return
			}
			if at%15 == 14 {
				if v := checkRange(nil, nil); v != nil {
					res.viol = v
					return
				}
				a, b := genKey(r, kt, space), genKey(r, kt, space)
				if c, _ := cmpVals(a, b); c > 0 {
					a, b = b, a
				}
				if v := checkRange(a, b); v != nil {
					res.viol = v
					return
				}
				if v := checkRange(a, nil); v != nil {
					res.viol = v
					return
				}
			}
		}
		if v := checkRange(nil, nil); v != nil {
			res.viol = v
		}
		res.stats["max_entries"] = len(m.ents)
	}()
	if pi2 != nil && res.viol == nil {
		res.viol = unitViol("C17", "index-op-panic", kind+" index: "+pi2.String(), at)
		res.viol.Site = pi2.Site
	}
	if res.viol != nil && genKeyExtremes && kind == "btree" && kt == TInt {
		// (known finding btree-extreme-int-key: boundary integer keys damage the embedded B-tree; the entry
		// that goes missing afterwards need not be the boundary key itself)
		res.viol.Features = map[string]bool{"keys:extreme-int": true}
	}
	res.sample = opLog
	if len(res.sample) > 60 {
		res.sample = res.sample[len(res.sample)-60:]
	}
	res.sig = shapeSig(cfg.Kind, strings.Join(opLog, ";"))
	return
}

func init() {
	registerUnit("idxsim", "C17", func(r *rng, tier string) UnitCfg {
		n := 30 + r.Intn(400)
		if tier == "thorough" {
			n += r.Intn(3000)
		}
		kind := []string{"skiplist", "skiplist", "uniqskiplist", "btree", "btree", "hash"}[r.Intn(6)]
		kt := []string{"int", "float", "varchar"}[r.Intn(3)]
		return UnitCfg{NOps: n, Kind: kind + ":" + kt, Frames: []int{24, 32, 64}[r.Intn(3)]}
	}, runIdxSim)
}

// ---------------------------------------------------------------- concurrent part (consim workload "index")

var idxTrace = os.Getenv("VERIF_TRACE") != ""

func (cr *ConRun) runIndex() {
	cfg := &cr.Cfg
	path := cr.Dir + "/db"
	removeDBFiles(path)
	backgroundOff()
	simrt.SeedRun(cr.Seed, cfg.MapPermute)
	wr := newRng(simrt.Mix(cr.Seed, 44))
	kind := []string{"skiplist", "skiplist", "uniqskiplist", "btree", "btree"}[wr.Intn(5)]
	kt := []ColType{TInt, TVarchar, TFloat}[wr.Intn(3)]
	genKeyMaxPad = 120
	if kind == "btree" {
		genKeyMaxPad = 15 // B-tree: encoded key (string + 12 bytes) must stay <= 36 bytes
	}
	nTasks := 2 + wr.Intn(4)
	if cfg.Clients < nTasks {
		nTasks = cfg.Clients
	}
	if nTasks < 2 {
		nTasks = 2
	}
	frames := []int{32, 64, 128}[wr.Intn(3)]
	opsPer := 10 + wr.Intn(60)
	space := 60 + wr.Intn(300)
	// drain variant (skip lists): wide keys (few entries per node), sparse never-touched keys, every
	// task inserts all of its keys and deletes them again: nodes become empty and are unlinked while
	// other tasks walk through / modify their neighbours
	drain := kind != "btree" && wr.Chance(0.35)
	drainPad := 150
	if drain {
		kt = TVarchar
		space = 40 + wr.Intn(120)
		drainPad = []int{150, 400, 800}[wr.Intn(3)]
		if v := os.Getenv("VERIF_DRAINPAD"); v != "" {
			fmt.Sscan(v, &drainPad)
		}
	}
	// never-touched keys (owner -1) and per-task key sets: key index i belongs to task i % (nTasks+1)
	owner := func(i int) int {
		if drain {
			if i%(7*nTasks) == 0 {
				return -1
			}
			return i % nTasks
		}
		return i%(nTasks+1) - 1
	}
	keyOf := func(i int) any {
		switch kt {
		case TInt:
			return int32(i * 3)
		case TFloat:
			return float32(i) / 2
		default:
			b := fmt.Sprintf("k%05d", i)
			if drain {
				b += strings.Repeat("w", drainPad+i%60)
			} else if i%3 == 0 {
				b += strings.Repeat("y", 1+i%genKeyMaxPad)
			}
			return b
		}
	}
	type top struct {
		kind string // ins | del | get | scan
		ki   int
	}
	progs := make([][]top, nTasks)
	for t := 0; t < nTasks; t++ {
		mine := []int{}
		for i := 0; i < space; i++ {
			if owner(i) == t {
				mine = append(mine, i)
			}
		}
		if drain {
			rounds := 1 + wr.Intn(2)
			for rd := 0; rd < rounds; rd++ {
				for _, j := range wr.permN(len(mine)) {
					progs[t] = append(progs[t], top{"ins", mine[j]})
					if wr.Chance(0.1) {
						progs[t] = append(progs[t], top{"get", mine[j]})
					}
				}
				if wr.Chance(0.5) {
					progs[t] = append(progs[t], top{"scan", 0})
				}
				// delete in key order, reverse key order or random order
				ord := wr.permN(len(mine))
				switch wr.Intn(3) {
				case 0:
					for j := range ord {
						ord[j] = j
					}
				case 1:
					for j := range ord {
						ord[j] = len(mine) - 1 - j
					}
				}
				for _, j := range ord {
					progs[t] = append(progs[t], top{"del", mine[j]})
					if wr.Chance(0.1) {
						progs[t] = append(progs[t], top{"get", mine[wr.Intn(len(mine))]})
					}
				}
			}
			continue
		}
		present := map[int]bool{}
		for j := 0; j < opsPer; j++ {
			ki := mine[wr.Intn(len(mine))]
			switch x := wr.Intn(10); {
			case x <= 3:
				if present[ki] {
					progs[t] = append(progs[t], top{"del", ki})
					present[ki] = false
				} else {
					progs[t] = append(progs[t], top{"ins", ki})
					present[ki] = true
				}
			case x <= 5:
				if present[ki] {
					progs[t] = append(progs[t], top{"del", ki})
					present[ki] = false
				} else {
					progs[t] = append(progs[t], top{"get", ki})
				}
			case x <= 8:
				progs[t] = append(progs[t], top{"get", ki})
			default:
				progs[t] = append(progs[t], top{"scan", 0})
			}
		}
	}
	var fixed []int // never-touched keys, inserted during set-up
	for i := 0; i < space; i++ {
		if owner(i) == -1 {
			fixed = append(fixed, i)
		}
	}
	var env *idxEnv
	var violations []Violation
	addV := func(class, detail string) {
		violations = append(violations, Violation{Property: "C17", Class: class, Detail: kind + " index: " + detail})
	}
	cr.Res = simrt.Run(cr.simConfig(), func() {
		var pi *PanicInfo
		env, pi = openIdxEnv(path, frames, kind, kt)
		if pi != nil {
			cr.SetupErr = "open: " + pi.String()
			return
		}
		txn := env.txn.Txn
		for _, i := range fixed {
			env.idx.InsertEntry(env.keyTuple(keyOf(i)), mkRID(i), txn)
		}
		var tasks []*simrt.Task
		for t := 0; t < nTasks; t++ {
			t := t
			tasks = append(tasks, simrt.S.Spawn(fmt.Sprintf("idx-%d", t), func() {
				present := map[int]bool{}
				for _, op := range progs[t] {
					key := keyOf(op.ki)
					if idxTrace {
						fmt.Fprintf(os.Stderr, "step %d task %d %s %d\n", simrt.S.Steps(), t, op.kind, op.ki)
					}
					switch op.kind {
					case "ins":
						env.idx.InsertEntry(env.keyTuple(key), mkRID(op.ki), txn)
						present[op.ki] = true
					case "del":
						env.idx.DeleteEntry(env.keyTuple(key), mkRID(op.ki), txn)
						present[op.ki] = false
					case "get":
						got := ridStrs(env.idx.ScanKey(env.keyTuple(key), txn))
						var want []string
						if present[op.ki] {
							want = []string{fmt.Sprint(mkRID(op.ki))}
						}
						if !sameStrings(want, got) {
							addV("concurrent-lookup-answer", fmt.Sprintf("task %d key %s (only this task touches it): ScanKey returns %v, expected %v", t, canonVal(key), got, want))
							return
						}
						// a never-touched key must always be found
						fi := fixed[(op.ki*7)%len(fixed)]
						g2 := ridStrs(env.idx.ScanKey(env.keyTuple(keyOf(fi)), txn))
						if len(g2) != 1 || g2[0] != fmt.Sprint(mkRID(fi)) {
							addV("untouched-entry-not-found", fmt.Sprintf("task %d: never-touched key %s: ScanKey returns %v", t, canonVal(keyOf(fi)), g2))
							return
						}
					case "scan":
						itr := env.idx.GetRangeScanIterator(nil, nil, txn)
						seen := map[string]int{}
						var order []string
						n := 0
						for done, _, _, rid := itr.Next(); !done; done, _, _, rid = itr.Next() {
							rs := fmt.Sprint(*rid)
							seen[rs]++
							order = append(order, rs)
							if n++; n > space+1000 {
								break
							}
						}
						for _, fi := range fixed {
							if seen[fmt.Sprint(mkRID(fi))] != 1 {
								addV("scan-misses-untouched-entry", fmt.Sprintf("task %d: full scan returned never-touched key %s %d times", t, canonVal(keyOf(fi)), seen[fmt.Sprint(mkRID(fi))]))
								return
							}
						}
						valid := map[string]int{}
						for i := 0; i < space; i++ {
							valid[fmt.Sprint(mkRID(i))] = i
						}
						last := -1
						for _, rs := range order {
							ki, ok := valid[rs]
							if !ok {
								addV("scan-returns-foreign-entry", fmt.Sprintf("task %d: full scan returned row id %s which was never inserted", t, rs))
								return
							}
							if seen[rs] > 1 {
								addV("scan-returns-entry-twice", fmt.Sprintf("task %d: full scan returned row id %s %d times", t, rs, seen[rs]))
								return
							}
							if ki < last && kt != TVarchar { // key order == index order for int/float keys
								addV("scan-out-of-order", fmt.Sprintf("task %d: key index %d after %d", t, ki, last))
								return
							}
							last = ki
						}
					}
				}
			}))
		}
		for _, t := range tasks {
			simrt.S.Join(t)
		}
		// final state: exactly fixed + each task's surviving keys
		final := map[int]bool{}
		for _, i := range fixed {
			final[i] = true
		}
		for t := 0; t < nTasks; t++ {
			p := map[int]bool{}
			for _, op := range progs[t] {
				if op.kind == "ins" {
					p[op.ki] = true
				} else if op.kind == "del" {
					p[op.ki] = false
				}
			}
			for k, v := range p {
				if v {
					final[k] = true
				}
			}
		}
		if len(violations) == 0 {
			for i := 0; i < space; i++ {
				got := ridStrs(env.idx.ScanKey(env.keyTuple(keyOf(i)), txn))
				if final[i] != (len(got) == 1) {
					addV("final-state", fmt.Sprintf("key %s: present in index=%v, expected %v", canonVal(keyOf(i)), len(got) == 1, final[i]))
					break
				}
			}
		}
		env.txn.Commit()
		env.s.DB.Shutdown()
		env.s.closed = true
	})
	cr.stat("steps", int(cr.Res.Steps))
	cr.stat("decisions", int(cr.Res.Decisions))
	cr.stat("preemptions", int(cr.Res.Preemptions))
	cr.faultStats()
	cr.stat("outcome:"+cr.Res.Outcome, 1)
	cr.stat("index_kind:"+kind, 1)
	if drain {
		cr.stat("index_drain_runs", 1)
	}
	switch cr.Res.Outcome {
	case "deadlock":
		cr.Viol = append(cr.Viol, Violation{Property: "C17", Class: "deadlock", Detail: kind + " index: " + strings.Join(firstN(cr.Res.Blocked, 10), "; ")})
	case "panic":
		cr.Viol = append(cr.Viol, Violation{Property: "C17", Class: "panic-under-concurrency", Detail: fmt.Sprintf("%s index: task %s: %s [%s]", kind, cr.Res.PanicTask, cr.Res.PanicVal, repoFrames(cr.Res.PanicStack, 6)), Site: panicSite(cr.Res.PanicStack)})
	case "ok":
		if cr.SetupErr != "" {
			cr.Viol = append(cr.Viol, Violation{Property: "C17", Class: "setup-failed", Detail: cr.SetupErr})
		}
		cr.Viol = append(cr.Viol, violations...)
	default:
		if cr.Cfg.Policy == simrt.PolRandom {
			cr.Viol = append(cr.Viol, Violation{Property: "C17", Class: "no-progress:" + cr.Res.Outcome, Detail: kind + " index: " + strings.Join(firstN(cr.Res.Blocked, 10), "; ")})
		} else {
			cr.stat("inconclusive_"+cr.Res.Outcome, 1)
		}
	}
}
