package main

// debug.go: `harness dump -replay FILE` prints the recorded trace of a crashsim replay file.

import (
	"encoding/binary"
	"encoding/json"
	"fmt"
	"github.com/ryogrid/SamehadaDB/lib/storage/disk"
	"os"
	"reflect"
	"unsafe"
)

func init() {
	replayers["crashsim-dump"] = nil
}

func dumpReplay(fn string) {
	b, err := os.ReadFile(fn)
	if err != nil {
		panic(err)
	}
	var rf ReplayFile
	json.Unmarshal(b, &rf)
	var cfg CrashCfg
	json.Unmarshal(rf.Cfg, &cfg)
	ops, _ := unmarshalOps(rf.Ops)
	disk.SimDebug = true
	cr := newCrashRun(rf.Seed, cfg, "dump")
	cr.execute(ops, nil)
	w := os.Stderr
	fmt.Fprintf(w, "infeasible=%q setupEnd=%d events=%d\n", cr.Infeasible, cr.SetupEnd, len(cr.Events))
	fmt.Fprintf(w, "pin vector at end of history: %v\n", cr.EndPins)
	for i, oc := range cr.Exec.Outcomes {
		fmt.Fprintf(w, "op %d: %s %s\n", i, oc.Status, oc.Detail)
	}
	io := 0
	for i := range cr.Events {
		ev := &cr.Events[i]
		mark := ""
		if i == cr.SetupEnd {
			mark = "   <== setup end"
		}
		switch ev.Kind {
		case 'M':
			fmt.Fprintf(w, "%4d      M %s %d %d%s\n", i, ev.Mark, ev.Arg, ev.Arg2, mark)
		case 'P':
			io++
			fmt.Fprintf(w, "%4d io%-3d P page=%d lsn=%d%s\n", i, io, ev.Page, int32(binary.LittleEndian.Uint32(ev.Data[4:])), mark)
		case 'L':
			io++
			recs, rest, bad := parseLog(ev.Data)
			fmt.Fprintf(w, "%4d io%-3d L %d bytes rest=%d %s%s\n", i, io, len(ev.Data), rest, bad, mark)
			for _, r := range recs {
				fmt.Fprintf(w, "               %v\n", r)
			}
		case 'G':
			io++
			fmt.Fprintf(w, "%4d io%-3d G%s\n", i, io, mark)
		}
	}
	for i, sn := range cr.Snaps {
		fmt.Fprintf(w, "snap %d: %v\n", i, sn)
	}
	// replay the first fault
	if len(rf.Faults) > 0 {
		f := rf.Faults[0]
		im := Image{}
		n := 0
		pos := 0
		for i := range cr.Events {
			ev := &cr.Events[i]
			if ev.Kind == 'M' {
				continue
			}
			if n == f.After {
				if f.Tear != nil {
					applyTorn(&im, ev, *f.Tear)
				}
				break
			}
			applyEvent(&im, ev)
			n++
			pos = i + 1
		}
		recs, rest, bad := parseLog(im.Log)
		fmt.Fprintf(w, "image at fault %+v: db %d bytes, log %d bytes (rest %d %s)\n", f, len(im.DB), len(im.Log), rest, bad)
		for _, r := range recs {
			fmt.Fprintf(w, "   %v\n", r)
		}
		if d := os.Getenv("VERIF_DUMP_IMAGE"); d != "" {
			writeImage(d, im)
		}
		s, out := recoverImage(cr.Dir, im, cfg.Frames, cr.Tables, false)
		if s != nil {
			fmt.Fprintf(w, "pin vector after recovery (%d frames): %v\n", cfg.Frames, s.PinVector())
			s.Crash()
		}
		fmt.Fprintf(w, "recovered: panic=%v\n", out.Panic)
		if out.Panic != nil {
			fmt.Fprintln(w, out.Panic.Stack)
		}
		for _, tn := range cr.Tables {
			fmt.Fprintf(w, "  %s: %v %s\n", tn, out.Tables[tn], out.ScanErr[tn])
		}
		for _, sn := range cr.allowedAt(pos) {
			fmt.Fprintf(w, "  allowed: %v\n", sn)
		}
	}
	os.RemoveAll(cr.Dir)
}

// dumpLockTables (diagnosis only, VERIF_DUMP_STACKS=1): the lock manager's tables, read through reflection.
func dumpLockTables(lm any) string {
	v := reflect.ValueOf(lm).Elem()
	out := ""
	for _, f := range []string{"sharedLockTable", "exclusiveLockTable"} {
		fv := v.FieldByName(f)
		fv = reflect.NewAt(fv.Type(), unsafe.Pointer(fv.UnsafeAddr())).Elem()
		out += f + ": " + fmt.Sprintf("%v", fv.Interface()) + "\n"
	}
	return out
}
