package simrt_test

import (
	"fmt"
	"reflect"
	"testing"
	"time"

	"verif/simrt"
	sync "verif/simrt/simsync"
)

func workload(log *[]string) func() {
	return func() {
		var mu sync.Mutex
		var rw sync.RWMutex
		ch := simrt.MakeChan[int](2)
		unb := simrt.MakeChan[string](0)
		shared := 0
		var wg sync.WaitGroup
		for i := 0; i < 4; i++ {
			i := i
			wg.Add(1)
			simrt.Go("w", func() {
				defer wg.Done()
				for k := 0; k < 5; k++ {
					mu.Lock()
					shared++
					*log = append(*log, fmt.Sprintf("w%d:%d", i, shared))
					mu.Unlock()
					rw.RLock()
					rw.RUnlock()
					if k == 2 {
						simrt.Sleep(time.Duration(i+1) * time.Second)
					}
				}
				simrt.Send(ch, i)
			})
		}
		simrt.Go("r", func() {
			for k := 0; k < 4; k++ {
				v := simrt.Recv(ch)
				rw.Lock()
				mu.Lock()
				*log = append(*log, fmt.Sprintf("r:%d", v))
				mu.Unlock()
				rw.Unlock()
			}
			simrt.Send(unb, "done")
		})
		v := simrt.Recv(unb)
		wg.Wait()
		*log = append(*log, v)
	}
}

func TestDeterminism(t *testing.T) {
	for _, pol := range []int{simrt.PolRandom, simrt.PolSticky, simrt.PolPCT, simrt.PolRoundRobin} {
		distinct := map[string]bool{}
		for seed := uint64(1); seed <= 30; seed++ {
			var l1, l2, l3 []string
			cfg := simrt.Config{Seed: seed, Policy: pol, StickyP: 0.8, PCTDepth: 3, PCTHorizon: 200, DilateP: 0.1}
			r1 := simrt.Run(cfg, workload(&l1))
			r2 := simrt.Run(cfg, workload(&l2))
			if r1.Outcome != "ok" || r2.Outcome != "ok" {
				t.Fatalf("outcome %v %v %v", r1.Outcome, r1.Blocked, r1.PanicVal)
			}
			if !reflect.DeepEqual(l1, l2) || !reflect.DeepEqual(r1.Trace, r2.Trace) || r1.VirtualNs != r2.VirtualNs {
				t.Fatalf("nondeterministic seed %d", seed)
			}
			cfg.Policy = simrt.PolReplay
			cfg.Replay = r1.Trace
			r3 := simrt.Run(cfg, workload(&l3))
			if r3.Outcome != "ok" || !reflect.DeepEqual(l1, l3) {
				t.Fatalf("replay differs seed %d: %v", seed, r3.Outcome)
			}
			if len(l1) != 25 {
				t.Fatalf("log length %d", len(l1))
			}
			distinct[fmt.Sprint(l1)] = true
		}
		t.Logf("policy %d: %d distinct interleavings of 30", pol, len(distinct))
	}
}

func TestDeadlock(t *testing.T) {
	r := simrt.Run(simrt.Config{Seed: 1}, func() {
		var a, b sync.Mutex
		ch := simrt.MakeChan[int](0)
		simrt.Go("x", func() {
			b.Lock()
			simrt.Recv(ch)
			a.Lock()
		})
		a.Lock()
		simrt.Send(ch, 1)
		b.Lock()
	})
	if r.Outcome != "deadlock" {
		t.Fatalf("want deadlock got %v", r.Outcome)
	}
	t.Log(r.Blocked)
}

func TestPanicAndKill(t *testing.T) {
	r := simrt.Run(simrt.Config{Seed: 1}, func() {
		var a sync.Mutex
		simrt.Go("sleeper", func() {
			a.Lock()
			defer a.Unlock()
			simrt.Sleep(time.Hour)
		})
		simrt.Yield()
		simrt.Yield()
		panic("boom")
	})
	if r.Outcome != "panic" || r.PanicVal != "boom" {
		t.Fatalf("got %+v", r)
	}
}

func TestWriterPreference(t *testing.T) {
	// reader holds R, writer waits, second RLock by another task must wait for the writer
	var order []string
	r := simrt.Run(simrt.Config{Seed: 3, Policy: simrt.PolRoundRobin}, func() {
		var rw sync.RWMutex
		rw.RLock()
		w := simrt.S.Spawn("w", func() { rw.Lock(); order = append(order, "W"); rw.Unlock() })
		for i := 0; i < 20; i++ {
			simrt.Yield()
		}
		r2 := simrt.S.Spawn("r2", func() { rw.RLock(); order = append(order, "R2"); rw.RUnlock() })
		for i := 0; i < 20; i++ {
			simrt.Yield()
		}
		rw.RUnlock()
		simrt.S.Join(w)
		simrt.S.Join(r2)
	})
	if r.Outcome != "ok" || len(order) != 2 || order[0] != "W" {
		t.Fatalf("%v %v", r.Outcome, order)
	}
}

var racy int

func TestRaceVisible(t *testing.T) {
	// only meaningful under -race: run with VERIF_EXPECT_RACE to see the report
	simrt.Run(simrt.Config{Seed: 1, NoKill: true}, func() {
		var mu sync.Mutex
		prot := 0
		a := simrt.S.Spawn("a", func() {
			for i := 0; i < 10; i++ {
				mu.Lock()
				prot++
				mu.Unlock()
				simrt.Yield()
			}
		})
		b := simrt.S.Spawn("b", func() {
			for i := 0; i < 10; i++ {
				mu.Lock()
				prot++
				mu.Unlock()
				simrt.Yield()
			}
		})
		simrt.S.Join(a)
		simrt.S.Join(b)
	})
}
