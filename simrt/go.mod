module verif/simrt

go 1.21
