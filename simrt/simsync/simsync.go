// Package simsync is imported under the name `sync` by rewritten repository code.
// In passthrough mode every primitive delegates to the real one. In controlled mode the
// simulator decides who may acquire; the real primitive is still taken afterwards (it is
// known to be free, so it never blocks), which keeps the synchronisation visible to the
// race detector exactly as in production.
package simsync

import (
	"runtime/debug"
	"sort"
	"sync"
	"sync/atomic"
	"time"
	"unsafe"

	"verif/simrt"
)

type Locker = sync.Locker

// Passthrough-mode bookkeeping: the Go runtime answers an unlock of an unlocked mutex with a fatal
// error that no recover() can catch, which would take the whole worker process down without a
// verdict. A corrupted engine state (e.g. a latch released twice after foreign bytes were read as an
// index node) becomes an ordinary panic instead, attributed to the engine frame that caused it.
// Not in race builds: the atomics would add happens-before edges the engine does not have.
func ptSet(p *int32) {
	if !raceBuild {
		atomic.StoreInt32(p, 1)
	}
}

func ptClear(p *int32, msg string) {
	if !raceBuild && !atomic.CompareAndSwapInt32(p, 1, 0) {
		panic(msg)
	}
}

func ptInc(p *int32) {
	if !raceBuild {
		atomic.AddInt32(p, 1)
	}
}

func ptDec(p *int32, msg string) {
	if !raceBuild && atomic.AddInt32(p, -1) < 0 {
		atomic.AddInt32(p, 1)
		panic(msg)
	}
}

// ---------------------------------------------------------------- Mutex

type Mutex struct {
	real   sync.Mutex
	locked bool
	owner  int32
	dbg    []byte
	ph     int32 // passthrough: held (1) or not; turns the runtime's unrecoverable "unlock of unlocked mutex" into a panic
}

// DebugOwners (diagnosis only): remember who locked a Mutex in passthrough mode and report it
// when somebody else waits more than 5 seconds.
var DebugOwners = false

func (m *Mutex) debugLock() {
	for i := 0; i < 5000; i++ {
		if m.real.TryLock() {
			m.dbg = debug.Stack()
			return
		}
		time.Sleep(time.Millisecond)
	}
	println("simsync: mutex not released for 5 s; locked by:\n" + string(m.dbg) + "\nwaiter:\n" + string(debug.Stack()))
	m.real.Lock()
}

//go:norace
func (m *Mutex) Lock() {
	switch simrt.Mode() {
	case simrt.ModePassthrough:
		if DebugOwners {
			m.debugLock()
			ptSet(&m.ph)
			return
		}
		m.real.Lock()
		ptSet(&m.ph)
		return
	case simrt.ModeDying:
		return
	}
	s := simrt.S
	s.Yield()
	for m.locked {
		s.Block(unsafe.Pointer(m), simrt.WaitMutex)
	}
	m.locked = true
	m.owner = s.Cur().ID
	m.real.Lock()
}

//go:norace
func (m *Mutex) TryLock() bool {
	switch simrt.Mode() {
	case simrt.ModePassthrough:
		ok := m.real.TryLock()
		if ok {
			ptSet(&m.ph)
		}
		return ok
	case simrt.ModeDying:
		return true
	}
	s := simrt.S
	s.Yield()
	if m.locked {
		return false
	}
	m.locked = true
	m.owner = s.Cur().ID
	m.real.Lock()
	return true
}

//go:norace
func (m *Mutex) Unlock() {
	switch simrt.Mode() {
	case simrt.ModePassthrough:
		ptClear(&m.ph, "sync: unlock of unlocked mutex")
		m.real.Unlock()
		return
	case simrt.ModeDying:
		return
	}
	if !m.locked {
		panic("simsync: unlock of unlocked mutex")
	}
	m.real.Unlock()
	m.locked = false
	simrt.S.WakeAll(unsafe.Pointer(m))
}

// ---------------------------------------------------------------- RWMutex

type RWMutex struct {
	real     sync.RWMutex
	writer   bool
	readers  int32
	wwaiting int32
	prc, pw  int32 // passthrough: reader count / writer held (see Mutex.ph)
}

//go:norace
func (m *RWMutex) RLock() {
	switch simrt.Mode() {
	case simrt.ModePassthrough:
		m.real.RLock()
		ptInc(&m.prc)
		return
	case simrt.ModeDying:
		return
	}
	s := simrt.S
	s.Yield()
	// Go's RWMutex: a pending writer blocks new readers
	for m.writer || m.wwaiting > 0 {
		s.Block(unsafe.Pointer(m), simrt.WaitRLock)
	}
	m.readers++
	m.real.RLock()
}

//go:norace
func (m *RWMutex) TryRLock() bool {
	switch simrt.Mode() {
	case simrt.ModePassthrough:
		ok := m.real.TryRLock()
		if ok {
			ptInc(&m.prc)
		}
		return ok
	case simrt.ModeDying:
		return true
	}
	s := simrt.S
	s.Yield()
	if m.writer || m.wwaiting > 0 {
		return false
	}
	m.readers++
	m.real.RLock()
	return true
}

//go:norace
func (m *RWMutex) RUnlock() {
	switch simrt.Mode() {
	case simrt.ModePassthrough:
		ptDec(&m.prc, "sync: RUnlock of unlocked RWMutex")
		m.real.RUnlock()
		return
	case simrt.ModeDying:
		return
	}
	if m.readers <= 0 {
		panic("simsync: RUnlock of unlocked RWMutex")
	}
	m.real.RUnlock()
	m.readers--
	simrt.S.WakeAll(unsafe.Pointer(m))
}

//go:norace
func (m *RWMutex) Lock() {
	switch simrt.Mode() {
	case simrt.ModePassthrough:
		m.real.Lock()
		ptSet(&m.pw)
		return
	case simrt.ModeDying:
		return
	}
	s := simrt.S
	s.Yield()
	m.wwaiting++
	for m.writer || m.readers > 0 {
		s.Block(unsafe.Pointer(m), simrt.WaitWLock)
	}
	m.wwaiting--
	m.writer = true
	m.real.Lock()
}

//go:norace
func (m *RWMutex) TryLock() bool {
	switch simrt.Mode() {
	case simrt.ModePassthrough:
		ok := m.real.TryLock()
		if ok {
			ptSet(&m.pw)
		}
		return ok
	case simrt.ModeDying:
		return true
	}
	s := simrt.S
	s.Yield()
	if m.writer || m.readers > 0 {
		return false
	}
	m.writer = true
	m.real.Lock()
	return true
}

//go:norace
func (m *RWMutex) Unlock() {
	switch simrt.Mode() {
	case simrt.ModePassthrough:
		ptClear(&m.pw, "sync: Unlock of unlocked RWMutex")
		m.real.Unlock()
		return
	case simrt.ModeDying:
		return
	}
	if !m.writer {
		panic("simsync: Unlock of unlocked RWMutex")
	}
	m.real.Unlock()
	m.writer = false
	simrt.S.WakeAll(unsafe.Pointer(m))
}

type rlocker RWMutex

func (r *rlocker) Lock()   { (*RWMutex)(r).RLock() }
func (r *rlocker) Unlock() { (*RWMutex)(r).RUnlock() }

func (m *RWMutex) RLocker() Locker { return (*rlocker)(m) }

// ---------------------------------------------------------------- WaitGroup

type WaitGroup struct {
	real sync.WaitGroup
	n    int64
}

//go:norace
func (w *WaitGroup) Add(d int) {
	switch simrt.Mode() {
	case simrt.ModePassthrough:
		w.real.Add(d)
		return
	case simrt.ModeDying:
		return
	}
	w.n += int64(d)
	w.real.Add(d)
	if w.n < 0 {
		panic("simsync: negative WaitGroup counter")
	}
	if w.n == 0 {
		simrt.S.WakeAll(unsafe.Pointer(w))
	}
}

func (w *WaitGroup) Done() { w.Add(-1) }

//go:norace
func (w *WaitGroup) Wait() {
	switch simrt.Mode() {
	case simrt.ModePassthrough:
		w.real.Wait()
		return
	case simrt.ModeDying:
		return
	}
	s := simrt.S
	s.Yield()
	for w.n > 0 {
		s.Block(unsafe.Pointer(w), simrt.WaitWG)
	}
	w.real.Wait()
}

// ---------------------------------------------------------------- Once

type Once struct {
	m    Mutex
	done bool
}

func (o *Once) Do(f func()) {
	o.m.Lock()
	defer o.m.Unlock()
	if !o.done {
		defer func() { o.done = true }()
		f()
	}
}

// ---------------------------------------------------------------- Cond

type Cond struct {
	L    Locker
	real *sync.Cond
	gen  uint64
	once sync.Once
}

func NewCond(l Locker) *Cond { return &Cond{L: l} }

func (c *Cond) init() { c.once.Do(func() { c.real = sync.NewCond(c.L) }) }

//go:norace
func (c *Cond) Wait() {
	switch simrt.Mode() {
	case simrt.ModePassthrough:
		c.init()
		c.real.Wait()
		return
	case simrt.ModeDying:
		return
	}
	g := c.gen
	c.L.Unlock()
	for c.gen == g {
		simrt.S.Block(unsafe.Pointer(c), simrt.WaitCond)
	}
	c.L.Lock()
}

//go:norace
func (c *Cond) Signal() { c.Broadcast() }

//go:norace
func (c *Cond) Broadcast() {
	switch simrt.Mode() {
	case simrt.ModePassthrough:
		c.init()
		c.real.Broadcast()
		return
	case simrt.ModeDying:
		return
	}
	c.gen++
	simrt.S.WakeAll(unsafe.Pointer(c))
}

// ---------------------------------------------------------------- Pool

// Pool is a deterministic LIFO free list (the real sync.Pool is per-P and emptied by GC).
type Pool struct {
	New  func() any
	mu   sync.Mutex
	free []any
}

func (p *Pool) Get() any {
	p.mu.Lock()
	if n := len(p.free); n > 0 {
		v := p.free[n-1]
		p.free[n-1] = nil
		p.free = p.free[:n-1]
		p.mu.Unlock()
		return v
	}
	p.mu.Unlock()
	if p.New != nil {
		return p.New()
	}
	return nil
}

func (p *Pool) Put(v any) {
	if v == nil {
		return
	}
	p.mu.Lock()
	if len(p.free) < 4096 {
		p.free = append(p.free, v)
	}
	p.mu.Unlock()
}

// ---------------------------------------------------------------- Map

// Map has sync.Map's API; Range visits keys in sorted order.
type Map struct {
	mu sync.RWMutex
	m  map[any]any
}

func (m *Map) Load(key any) (any, bool) {
	m.mu.RLock()
	v, ok := m.m[key]
	m.mu.RUnlock()
	return v, ok
}

func (m *Map) Store(key, value any) {
	m.mu.Lock()
	if m.m == nil {
		m.m = map[any]any{}
	}
	m.m[key] = value
	m.mu.Unlock()
}

func (m *Map) LoadOrStore(key, value any) (any, bool) {
	m.mu.Lock()
	defer m.mu.Unlock()
	if m.m == nil {
		m.m = map[any]any{}
	}
	if v, ok := m.m[key]; ok {
		return v, true
	}
	m.m[key] = value
	return value, false
}

func (m *Map) LoadAndDelete(key any) (any, bool) {
	m.mu.Lock()
	defer m.mu.Unlock()
	v, ok := m.m[key]
	delete(m.m, key)
	return v, ok
}

func (m *Map) Delete(key any) {
	m.mu.Lock()
	delete(m.m, key)
	m.mu.Unlock()
}

func (m *Map) Swap(key, value any) (any, bool) {
	m.mu.Lock()
	defer m.mu.Unlock()
	if m.m == nil {
		m.m = map[any]any{}
	}
	v, ok := m.m[key]
	m.m[key] = value
	return v, ok
}

func (m *Map) CompareAndSwap(key, old, new any) bool {
	m.mu.Lock()
	defer m.mu.Unlock()
	if v, ok := m.m[key]; ok && v == old {
		m.m[key] = new
		return true
	}
	return false
}

func (m *Map) CompareAndDelete(key, old any) bool {
	m.mu.Lock()
	defer m.mu.Unlock()
	if v, ok := m.m[key]; ok && v == old {
		delete(m.m, key)
		return true
	}
	return false
}

func (m *Map) Range(f func(key, value any) bool) {
	m.mu.RLock()
	keys := make([]any, 0, len(m.m))
	for k := range m.m {
		keys = append(keys, k)
	}
	m.mu.RUnlock()
	sort.SliceStable(keys, func(i, j int) bool { return simrt.LessAny(keys[i], keys[j]) })
	for _, k := range keys {
		m.mu.RLock()
		v, ok := m.m[k]
		m.mu.RUnlock()
		if !ok {
			continue
		}
		if !f(k, v) {
			return
		}
	}
}

func (m *Map) Clear() {
	m.mu.Lock()
	m.m = nil
	m.mu.Unlock()
}

// OnceFunc etc. are not used by the repository; add when the rewriter reports them.
