//go:build !race

package simsync

const raceBuild = false
