package simrt

import (
	"fmt"
	"math/rand"
	"reflect"
	"runtime"
	"runtime/debug"
	"sort"
	"strings"
	"sync"
	"sync/atomic"
	"time"
	"unsafe"
)

// ---------------------------------------------------------------- goroutines

// GoPolicy decides per `go` site whether the goroutine is started. The key is the
// site string the rewriter generated ("pkg/file.go:line"). Missing key => start.
var goPolicyMu sync.Mutex
var goPolicy = map[string]bool{}
var goDefault = true

// SetGoPolicy: start[site]=false suppresses goroutines spawned at that site.
func SetGoPolicy(def bool, start map[string]bool) {
	goPolicyMu.Lock()
	goDefault = def
	goPolicy = map[string]bool{}
	for k, v := range start {
		goPolicy[k] = v
	}
	goPolicyMu.Unlock()
}

func goAllowed(site string) bool {
	goPolicyMu.Lock()
	defer goPolicyMu.Unlock()
	for k, v := range goPolicy {
		if len(site) >= len(k) && contains(site, k) {
			return v
		}
	}
	return goDefault
}

func contains(s, sub string) bool {
	for i := 0; i+len(sub) <= len(s); i++ {
		if s[i:i+len(sub)] == sub {
			return true
		}
	}
	return false
}

// GoCount counts spawned goroutines per site (evidence).
var GoCount = map[string]int{}

// Go replaces the `go` statement in rewritten code.
func Go(site string, fn func()) {
	if !goAllowed(site) {
		return
	}
	goPolicyMu.Lock()
	GoCount[site]++
	goPolicyMu.Unlock()
	switch Mode() {
	case ModeControlled:
		S.Spawn(site, fn)
	case ModeDying:
		return
	default:
		atomic.AddInt64(&passthroughSpawns, 1)
		go func() {
			defer func() {
				if r := recover(); r != nil {
					select {
					case GoPanicCh <- GoPanic{Site: site, Val: fmt.Sprint(r), Stack: string(debug.Stack())}:
					default:
					}
				}
			}()
			fn()
		}()
	}
}

var passthroughSpawns int64

// PassthroughSpawns: number of goroutines started by rewritten repository code in passthrough mode
// (a statement that is aborted and re-queued without end shows up as an unbounded growth).
func PassthroughSpawns() int64 { return atomic.LoadInt64(&passthroughSpawns) }

// GoPanic: a goroutine started by rewritten repository code panicked in passthrough mode.
// (In production this kills the process; the harness turns it into an observable outcome.)
type GoPanic struct{ Site, Val, Stack string }

var GoPanicCh = make(chan GoPanic, 64)

// Yield replaces runtime.Gosched and is a generic decision point.
//
//go:norace
func Yield() {
	switch mode {
	case ModeControlled:
		S.Yield()
	case ModeDying:
	default:
		// passthrough: nothing (runtime.Gosched is only a hint)
	}
}

// ---------------------------------------------------------------- time

var epoch = time.Date(2024, 1, 1, 0, 0, 0, 0, time.UTC)

// PassthroughSleep controls what Sleep does outside a simulation: real sleep (default)
// or return immediately.
var PassthroughSleepReal = true

func Sleep(d time.Duration) {
	switch Mode() {
	case ModeControlled:
		S.SleepNs(int64(d))
	case ModeDying:
	default:
		if PassthroughSleepReal {
			time.Sleep(d)
		}
	}
}

var ptNow int64

// Now returns the virtual time (a fixed epoch plus simulated nanoseconds); outside a
// simulation it is a deterministic counter, never the wall clock.
func Now() time.Time {
	if Mode() == ModeControlled {
		return epoch.Add(time.Duration(S.Now()))
	}
	goPolicyMu.Lock()
	ptNow += 1000
	v := ptNow
	goPolicyMu.Unlock()
	return epoch.Add(time.Duration(v))
}

func Since(t time.Time) time.Duration { return Now().Sub(t) }

// ---------------------------------------------------------------- channels

// Chan replaces `chan T` in rewritten code.
type Chan[T any] struct {
	real    chan T
	mu      sync.Mutex
	q       []T
	capn    int
	sendSeq uint64
	recvSeq uint64
	closed  bool
}

func MakeChan[T any](n int) *Chan[T] {
	return &Chan[T]{real: make(chan T, n), capn: n}
}

//go:norace
func Send[T any](c *Chan[T], v T) {
	switch mode {
	case ModePassthrough:
		c.real <- v
		return
	case ModeDying:
		return
	}
	s := S
	obj := unsafe.Pointer(c)
	s.Yield()
	c.mu.Lock()
	if c.closed {
		c.mu.Unlock()
		panic("send on closed channel")
	}
	if c.capn > 0 {
		for len(c.q) >= c.capn {
			c.mu.Unlock()
			s.Block(obj, WaitChanSend)
			c.mu.Lock()
		}
		c.q = append(c.q, v)
		c.mu.Unlock()
		s.WakeAll(obj)
		return
	}
	for len(c.q) >= 1 {
		c.mu.Unlock()
		s.Block(obj, WaitChanSend)
		c.mu.Lock()
	}
	c.q = append(c.q, v)
	my := c.sendSeq
	c.sendSeq++
	c.mu.Unlock()
	s.WakeAll(obj)
	for c.recvSeq <= my {
		s.Block(obj, WaitChanSend)
	}
}

//go:norace
func Recv2[T any](c *Chan[T]) (T, bool) {
	var zero T
	switch mode {
	case ModePassthrough:
		v, ok := <-c.real
		return v, ok
	case ModeDying:
		return zero, false
	}
	s := S
	obj := unsafe.Pointer(c)
	s.Yield()
	c.mu.Lock()
	for len(c.q) == 0 {
		if c.closed {
			c.mu.Unlock()
			return zero, false
		}
		c.mu.Unlock()
		s.Block(obj, WaitChanRecv)
		c.mu.Lock()
	}
	v := c.q[0]
	c.q[0] = zero
	c.q = c.q[1:]
	c.recvSeq++
	c.mu.Unlock()
	s.WakeAll(obj)
	return v, true
}

//go:norace
func Recv[T any](c *Chan[T]) T {
	v, _ := Recv2(c)
	return v
}

//go:norace
func Close[T any](c *Chan[T]) {
	switch mode {
	case ModePassthrough:
		close(c.real)
		return
	case ModeDying:
		return
	}
	c.mu.Lock()
	c.closed = true
	c.mu.Unlock()
	S.WakeAll(unsafe.Pointer(c))
}

func (c *Chan[T]) Len() int {
	if Mode() == ModePassthrough {
		return len(c.real)
	}
	c.mu.Lock()
	defer c.mu.Unlock()
	return len(c.q)
}

func (c *Chan[T]) Cap() int { return c.capn }

// ---------------------------------------------------------------- per-run streams

var streamMu sync.Mutex
var mapRng PRNG
var mapPermute bool
var sutRand *rand.Rand

type prngSource struct{ p PRNG }

func (s *prngSource) Int63() int64    { return int64(s.p.Uint64() >> 1) }
func (s *prngSource) Uint64() uint64  { return s.p.Uint64() }
func (s *prngSource) Seed(seed int64) { s.p = NewPRNG(uint64(seed)) }

// SeedRun (re)initialises the streams that rewritten repository code draws from.
func SeedRun(seed uint64, permuteMaps bool) {
	streamMu.Lock()
	mapRng = NewPRNG(Mix(seed, 3))
	mapPermute = permuteMaps
	sutRand = rand.New(&prngSource{p: NewPRNG(Mix(seed, 4))})
	streamMu.Unlock()
	goPolicyMu.Lock()
	ptNow = 0
	goPolicyMu.Unlock()
}

func init() { SeedRun(1, false) }

// LockedRand is what `rand.X` package-level calls are rewritten to.
type LockedRand struct{}

func Rand() LockedRand { return LockedRand{} }

func (LockedRand) Intn(n int) int { streamMu.Lock(); defer streamMu.Unlock(); return sutRand.Intn(n) }
func (LockedRand) Int31n(n int32) int32 {
	streamMu.Lock()
	defer streamMu.Unlock()
	return sutRand.Int31n(n)
}
func (LockedRand) Int63n(n int64) int64 {
	streamMu.Lock()
	defer streamMu.Unlock()
	return sutRand.Int63n(n)
}
func (LockedRand) Int31() int32   { streamMu.Lock(); defer streamMu.Unlock(); return sutRand.Int31() }
func (LockedRand) Int63() int64   { streamMu.Lock(); defer streamMu.Unlock(); return sutRand.Int63() }
func (LockedRand) Int() int       { streamMu.Lock(); defer streamMu.Unlock(); return sutRand.Int() }
func (LockedRand) Uint32() uint32 { streamMu.Lock(); defer streamMu.Unlock(); return sutRand.Uint32() }
func (LockedRand) Uint64() uint64 { streamMu.Lock(); defer streamMu.Unlock(); return sutRand.Uint64() }
func (LockedRand) Float32() float32 {
	streamMu.Lock()
	defer streamMu.Unlock()
	return sutRand.Float32()
}
func (LockedRand) Float64() float64 {
	streamMu.Lock()
	defer streamMu.Unlock()
	return sutRand.Float64()
}
func (LockedRand) Perm(n int) []int { streamMu.Lock(); defer streamMu.Unlock(); return sutRand.Perm(n) }
func (LockedRand) Seed(int64)       {}
func (LockedRand) Shuffle(n int, f func(i, j int)) {
	streamMu.Lock()
	defer streamMu.Unlock()
	sutRand.Shuffle(n, f)
}

// ---------------------------------------------------------------- map order

// MapKeys returns the keys of m in canonical (sorted) order, optionally permuted by
// the run's map stream. It replaces `range m`.
func MapKeys[M ~map[K]V, K comparable, V any](m M) []K {
	keys := make([]K, 0, len(m))
	for k := range m {
		keys = append(keys, k)
	}
	return OrderKeys(keys)
}

// OrderKeys sorts (and optionally permutes) a key slice; it replaces maps.Keys / ToSlice results.
// TraceOrder (diagnosis): print every OrderKeys call with its caller.
var TraceOrder = false

func OrderKeys[K any](keys []K) []K {
	if TraceOrder {
		_, f1, l1, _ := runtime.Caller(1)
		_, f2, l2, _ := runtime.Caller(2)
		println("ORDERKEYS", len(keys), f1, l1, f2, l2)
		if strings.Contains(f2, "table_catalog") {
			println(string(debug.Stack()))
		}
	}
	sort.SliceStable(keys, func(i, j int) bool { return lessAny(keys[i], keys[j]) })
	streamMu.Lock()
	if mapPermute && len(keys) > 1 {
		for i := len(keys) - 1; i > 0; i-- {
			j := mapRng.Intn(i + 1)
			keys[i], keys[j] = keys[j], keys[i]
		}
	}
	streamMu.Unlock()
	if TraceOrder {
		println("ORDERRESULT", fmt.Sprint(keys))
	}
	return keys
}

func lessAny(a, b any) bool {
	va, vb := reflect.ValueOf(a), reflect.ValueOf(b)
	if va.Kind() != vb.Kind() {
		return fmt.Sprintf("%T%v", a, a) < fmt.Sprintf("%T%v", b, b)
	}
	switch va.Kind() {
	case reflect.Int, reflect.Int8, reflect.Int16, reflect.Int32, reflect.Int64:
		return va.Int() < vb.Int()
	case reflect.Uint, reflect.Uint8, reflect.Uint16, reflect.Uint32, reflect.Uint64, reflect.Uintptr:
		return va.Uint() < vb.Uint()
	case reflect.String:
		return va.String() < vb.String()
	case reflect.Float32, reflect.Float64:
		return va.Float() < vb.Float()
	case reflect.Bool:
		return !va.Bool() && vb.Bool()
	}
	return fmt.Sprintf("%v", a) < fmt.Sprintf("%v", b)
}

// LessAny is exported for simsync.Map.Range.
func LessAny(a, b any) bool { return lessAny(a, b) }

// ---------------------------------------------------------------- probes

const MaxProbes = 16384

var probes [MaxProbes]uint32

//go:norace
func Probe(id int) {
	if id < MaxProbes {
		probes[id]++
	}
}

//go:norace
func ProbeSnapshot(n int) []uint32 {
	if n > MaxProbes {
		n = MaxProbes
	}
	out := make([]uint32, n)
	for i := 0; i < n; i++ {
		out[i] = probes[i]
	}
	return out
}

//go:norace
func ProbeReset() {
	for i := range probes {
		probes[i] = 0
	}
}
