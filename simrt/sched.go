// Package simrt is the deterministic-simulation runtime that rewritten SamehadaDB
// code is linked against (see /verif/DESIGN.md section 2.2).
//
// Exactly one task (goroutine executing repository code) holds the run token at any
// time in controlled mode; every other task is parked on a futex word.  The hand-off
// is done with raw futex syscalls and plain memory accesses inside //go:norace
// functions, so that it is invisible to the Go race detector: the scheduler serialises
// execution without adding happens-before edges.
//
// Everything in this file is //go:norace and avoids maps, append and copy on scheduler
// state, because the Go runtime instruments those operations itself under -race.
package simrt

import (
	"fmt"
	"os"
	"runtime"
	"runtime/debug"
	"syscall"
	"unsafe"
)

// Mode of the runtime.
const (
	ModePassthrough int32 = iota // primitives behave exactly like the originals
	ModeControlled               // a simulation is running, scheduler decides
	ModeDying                    // simulation is being torn down: primitives are no-ops
)

// mode is read on every primitive call. It only changes while no task runs
// (before the root task is released / after the simulation ended).
var mode int32

// S is the running simulation (nil outside controlled mode).
var S *Sim

//go:norace
func Mode() int32 { return mode }

//go:norace
func Controlled() bool { return mode == ModeControlled }

const MaxTasks = 1024 // live tasks at one time (finished tasks are compacted away)

const (
	tsRunnable int32 = iota
	tsBlocked
	tsSleeping
	tsDone
)

// Wait kinds, for deadlock reports.
const (
	WaitNone = iota
	WaitMutex
	WaitRLock
	WaitWLock
	WaitChanSend
	WaitChanRecv
	WaitWG
	WaitCond
	WaitSleep
	WaitJoin
)

var waitNames = [...]string{"none", "mutex", "rlock", "wlock", "chan-send", "chan-recv", "waitgroup", "cond", "sleep", "join"}

type Task struct {
	fut      uint32
	ID       int32
	state    int32
	waitKind int32
	waitObj  unsafe.Pointer
	wake     int64
	kill     bool
	Name     string
	prio     int64
	exited   chan struct{}
	steps    int64
}

// Scheduling policies.
const (
	PolRandom = iota
	PolSticky
	PolPCT
	PolRoundRobin
	PolReplay
)

type Config struct {
	Seed         uint64
	Policy       int
	StickyP      float64 // probability of continuing the current task (PolSticky)
	PCTDepth     int     // number of priority change points (PolPCT)
	PCTHorizon   int64   // change points are drawn in [0, PCTHorizon) steps
	MaxSteps     int64   // step budget; 0 = default
	DilateP      float64 // probability of advancing the virtual clock at a decision point
	DilateMax    int64   // max advance in ns
	DrainSteps   int64   // extra steps after the root task returned to let others finish
	MaxVirtualNs int64   // virtual-time budget (0 = 48h): exceeded => outcome "time-limit"
	Replay       []uint16
	NoKill       bool // leave parked tasks parked at the end (race builds)
}

type Result struct {
	Outcome     string // ok | deadlock | step-limit | panic | divergence
	PanicVal    string
	PanicStack  string
	PanicTask   string
	Steps       int64
	Decisions   int64 // decision points with >1 runnable task
	Preemptions int64 // decisions where a task other than the current runnable one was chosen
	VirtualNs   int64
	Tasks       int
	Trace       []uint16
	Blocked     []string // wait-for description at deadlock / step-limit
	Leftover    int      // tasks not finished when the simulation ended
	ClockJumps  int64    // virtual-clock dilations injected at decision points
	TimerFires  int64    // sleeping tasks woken because their (virtual) deadline passed
	IdleJumps   int64    // clock jumps to the next timer because nothing was runnable
}

type Sim struct {
	cfg   Config
	tasks [MaxTasks]*Task
	n     int32
	cur   *Task
	rng   PRNG
	trng  PRNG // virtual-time dilation stream (independent of the pick stream, so that replay keeps the clock)
	prng  PRNG // task priority stream
	now   int64
	steps int64

	clockJumps, timerFires, idleJumps int64

	decisions   int64
	preemptions int64

	trace []uint16
	tlen  int
	rpos  int

	pctPoints [16]int64
	pctN      int
	rr        int32
	nextID    int32
	doneCnt   int32
	finished  int32
	root      *Task
	allTasks  []*Task // every task ever spawned (teardown)

	rootDone   bool
	drainLeft  int64
	ended      bool
	outcome    string
	panicVal   string
	panicStack string
	panicTask  string
	doneCh     chan struct{}
}

var traceBuf []uint16

const futexWaitPrivate = 0 | 128
const futexWakePrivate = 1 | 128

//go:norace
//go:noinline
func futexWait(addr *uint32, val uint32) {
	syscall.Syscall6(syscall.SYS_FUTEX, uintptr(unsafe.Pointer(addr)), futexWaitPrivate, uintptr(val), 0, 0, 0)
}

//go:norace
//go:noinline
func futexWake(addr *uint32) {
	syscall.Syscall6(syscall.SYS_FUTEX, uintptr(unsafe.Pointer(addr)), futexWakePrivate, 1, 0, 0, 0)
}

//go:norace
//go:noinline
func loadFut(t *Task) uint32 { return t.fut }

//go:norace
//go:noinline
func storeFut(t *Task, v uint32) { t.fut = v }

// park blocks the calling goroutine until somebody hands it the token.
//
//go:norace
func park(t *Task) {
	for {
		if loadFut(t) == 1 {
			storeFut(t, 0)
			break
		}
		futexWait(&t.fut, 0)
	}
	if t.kill {
		runtime.Goexit()
	}
}

//go:norace
func unpark(t *Task) {
	storeFut(t, 1)
	futexWake(&t.fut)
}

// Cur returns the task holding the token.
//
//go:norace
func (s *Sim) Cur() *Task { return s.cur }

//go:norace
func (s *Sim) Now() int64 { return s.now }

//go:norace
func (s *Sim) Steps() int64 { return s.steps }

//go:norace
func (s *Sim) Advance(d int64) {
	if d > 0 {
		s.now += d
	}
}

//go:norace
func (s *Sim) wakeSleepers() {
	for i := int32(0); i < s.n; i++ {
		t := s.tasks[i]
		if t.state == tsSleeping && t.wake <= s.now {
			t.state = tsRunnable
			t.waitKind = WaitNone
			s.timerFires++
		}
	}
}

// pick chooses the next task to run among runnable ones; nil if none.
//
//go:norace
func (s *Sim) pick(self *Task) *Task {
	var cand [MaxTasks]int32
	nc := 0
	for {
		s.wakeSleepers()
		nc = 0
		for i := int32(0); i < s.n; i++ {
			if s.tasks[i].state == tsRunnable {
				cand[nc] = i
				nc++
			}
		}
		if nc > 0 {
			break
		}
		// nothing runnable: jump the clock to the next timer
		var next int64 = -1
		for i := int32(0); i < s.n; i++ {
			t := s.tasks[i]
			if t.state == tsSleeping && (next < 0 || t.wake < next) {
				next = t.wake
			}
		}
		if next < 0 {
			return nil
		}
		s.now = next
		s.idleJumps++
		if s.now > s.cfg.MaxVirtualNs {
			s.outcome = "time-limit"
			return nil
		}
	}
	if nc == 1 {
		return s.tasks[cand[0]]
	}
	s.decisions++
	var chosen *Task
	selfRunnable := self != nil && self.state == tsRunnable
	switch s.cfg.Policy {
	case PolReplay:
		if s.rpos >= len(s.cfg.Replay) {
			// replay exhausted: continue deterministically with the lowest id
			chosen = s.tasks[cand[0]]
		} else {
			id := int32(s.cfg.Replay[s.rpos])
			s.rpos++
			for i := 0; i < nc; i++ {
				if s.tasks[cand[i]].ID == id {
					chosen = s.tasks[cand[i]]
				}
			}
			if chosen == nil {
				s.outcome = "divergence"
				return nil
			}
		}
	case PolSticky:
		if selfRunnable && s.rng.Float64() < s.cfg.StickyP {
			chosen = self
		} else {
			chosen = s.tasks[cand[s.rng.Intn(nc)]]
		}
	case PolPCT:
		for k := 0; k < s.pctN; k++ {
			if s.pctPoints[k] == s.steps && selfRunnable {
				self.prio = -s.steps // lower than every initial priority
			}
		}
		best := s.tasks[cand[0]]
		for i := 1; i < nc; i++ {
			t := s.tasks[cand[i]]
			if t.prio > best.prio {
				best = t
			}
		}
		chosen = best
	case PolRoundRobin:
		s.rr++
		chosen = s.tasks[cand[int(s.rr)%nc]]
	default:
		chosen = s.tasks[cand[s.rng.Intn(nc)]]
	}
	if selfRunnable && chosen != self {
		s.preemptions++
	}
	if s.tlen < len(s.trace) {
		s.trace[s.tlen] = uint16(chosen.ID)
		s.tlen++
	}
	return chosen
}

// schedule is the heart: the calling task (whose state has already been set) gives the
// scheduler the chance to run somebody else. Returns when the caller holds the token again.
//
//go:norace
func (s *Sim) schedule(self *Task) {
	if s.ended {
		// simulation already aborted; this task must not continue running repository code
		s.parkForever(self)
		return
	}
	s.steps++
	self.steps++
	if s.cfg.DilateP > 0 && s.trng.Float64() < s.cfg.DilateP {
		s.now += s.trng.Int63n(s.cfg.DilateMax + 1)
		s.clockJumps++
	}
	if s.steps > s.cfg.MaxSteps {
		s.finish("step-limit")
		s.parkForever(self)
		return
	}
	if s.rootDone {
		s.drainLeft--
		if s.drainLeft <= 0 {
			s.finish("ok")
			s.parkForever(self)
			return
		}
	}
	if s.doneCnt > 64 {
		s.compact()
	}
	next := s.pick(self)
	if next == nil {
		if s.outcome == "divergence" {
			s.finish("divergence")
		} else if s.outcome == "time-limit" {
			if s.rootDone {
				s.outcome = "ok"
			}
			s.finish(s.outcome)
		} else if s.allDone() {
			s.finish("ok")
		} else if s.rootDone {
			// leftover tasks blocked forever after the root returned (e.g. the request
			// manager loop waiting for requests): not a deadlock of the workload
			s.finish("ok")
		} else {
			s.finish("deadlock")
		}
		s.parkForever(self)
		return
	}
	if next == self {
		return
	}
	s.cur = next
	unpark(next)
	if self.state != tsDone {
		park(self)
	}
}

// DumpStacks (diagnosis only): print every goroutine's stack when a run ends in deadlock or step-limit.
var DumpStacks = false

//go:norace
func (s *Sim) allDone() bool {
	for i := int32(0); i < s.n; i++ {
		if s.tasks[i].state != tsDone {
			return false
		}
	}
	return true
}

//go:norace
func (s *Sim) parkForever(self *Task) {
	if self.state == tsDone {
		return
	}
	self.state = tsBlocked
	for {
		park(self) // only returns through Goexit when killed
	}
}

// finish ends the simulation and wakes the goroutine that called Run.
//
//go:norace
func (s *Sim) finish(outcome string) {
	if s.ended {
		return
	}
	s.ended = true
	if s.outcome == "" || s.outcome == "divergence" {
		s.outcome = outcome
	}
	if DumpStacks && (outcome == "deadlock" || outcome == "step-limit") {
		buf := make([]byte, 4<<20)
		n := runtime.Stack(buf, true)
		os.Stderr.Write(buf[:n])
	}
	mode = ModeDying
	close(s.doneCh)
}

// ArmPCT re-draws the priority change points of the PCT policy over the next `horizon` steps. A
// workload calls it when its set-up is done, so that the few change points fall into the part of the
// run where the concurrent tasks are alive (no effect under the other policies, or in replay).
//
//go:norace
func (s *Sim) ArmPCT(horizon int64) {
	if s.cfg.Policy != PolPCT || horizon <= 0 {
		return
	}
	for k := 0; k < s.pctN; k++ {
		s.pctPoints[k] = s.steps + 1 + s.prng.Int63n(horizon)
	}
}

// Yield is a decision point at which the current task stays runnable.
//
//go:norace
func (s *Sim) Yield() {
	t := s.cur
	t.state = tsRunnable
	s.schedule(t)
}

// Block parks the current task until WakeAll(obj) is called (the caller re-checks its condition).
//
//go:norace
func (s *Sim) Block(obj unsafe.Pointer, kind int32) {
	t := s.cur
	t.state = tsBlocked
	t.waitObj = obj
	t.waitKind = kind
	s.schedule(t)
}

//go:norace
func (s *Sim) WakeAll(obj unsafe.Pointer) {
	for i := int32(0); i < s.n; i++ {
		t := s.tasks[i]
		if t.state == tsBlocked && t.waitObj == obj {
			t.state = tsRunnable
			t.waitObj = nil
			t.waitKind = WaitNone
		}
	}
}

//go:norace
func (s *Sim) SleepNs(d int64) {
	t := s.cur
	if d < 0 {
		d = 0
	}
	t.state = tsSleeping
	t.wake = s.now + d
	t.waitKind = WaitSleep
	s.schedule(t)
}

//go:norace
func (s *Sim) newTask(name string) *Task {
	if s.n >= MaxTasks {
		s.compact()
	}
	if s.n >= MaxTasks || len(s.allTasks) >= cap(s.allTasks) {
		// too many live tasks: end the simulation (the caller parks)
		s.outcome = "task-limit"
		s.finish("task-limit")
		s.parkForever(s.cur)
	}
	t := &Task{ID: s.nextID, Name: name, state: tsRunnable, exited: make(chan struct{})}
	s.nextID++
	t.prio = s.prng.Int63n(1<<40) + 1
	s.tasks[s.n] = t
	s.n++
	if len(s.allTasks) < cap(s.allTasks) {
		// preallocated: no growslice (which is race-instrumented by the runtime)
		s.allTasks = s.allTasks[:len(s.allTasks)+1]
		s.allTasks[len(s.allTasks)-1] = t
	}
	return t
}

// Spawn registers fn as a new task. The new goroutine parks immediately; the spawner continues
// (spawning is followed by a decision point).
//
//go:norace
func (s *Sim) Spawn(name string, fn func()) *Task {
	t := s.newTask(name)
	go s.taskMain(t, fn)
	if s.cur != nil {
		s.Yield()
	}
	return t
}

func (s *Sim) taskMain(t *Task, fn func()) {
	defer close(t.exited)
	defer func() {
		if r := recover(); r != nil {
			s.taskPanicked(t, r, debug.Stack())
		}
	}()
	park(t)
	fn()
	s.taskFinished(t)
}

// compact removes finished tasks from the table (ids stay stable: they are spawn ordinals).
//
//go:norace
func (s *Sim) compact() {
	j := int32(0)
	for i := int32(0); i < s.n; i++ {
		if s.tasks[i].state != tsDone {
			s.tasks[j] = s.tasks[i]
			j++
		} else {
			s.finished++
		}
	}
	for i := j; i < s.n; i++ {
		s.tasks[i] = nil
	}
	s.n = j
	s.doneCnt = 0
}

//go:norace
func (s *Sim) taskFinished(t *Task) {
	if mode != ModeControlled || s.ended {
		return
	}
	t.state = tsDone
	s.doneCnt++
	if t == s.root {
		s.rootDone = true
		s.drainLeft = s.cfg.DrainSteps
	}
	s.WakeAll(unsafe.Pointer(t)) // joiners
	s.schedule(t)
}

//go:norace
func (s *Sim) taskPanicked(t *Task, r interface{}, stack []byte) {
	if s.ended {
		return
	}
	s.outcome = "panic"
	s.panicVal = fmt.Sprint(r)
	s.panicStack = string(stack)
	s.panicTask = t.Name
	t.state = tsDone
	s.finish("panic")
}

// Join blocks until task t has finished.
//
//go:norace
func (s *Sim) Join(t *Task) {
	for t.state != tsDone {
		s.Block(unsafe.Pointer(t), WaitJoin)
	}
}

//go:norace
func (s *Sim) describeBlocked() []string {
	var out []string
	for i := int32(0); i < s.n; i++ {
		t := s.tasks[i]
		if t.state == tsDone {
			continue
		}
		st := "runnable"
		if t.state == tsBlocked {
			st = "blocked"
		} else if t.state == tsSleeping {
			st = "sleeping"
		}
		out = append(out, fmt.Sprintf("task %d %q %s on %s %p", t.ID, t.Name, st, waitNames[t.waitKind], t.waitObj))
	}
	return out
}

// Run executes root as task 0 under the controlled scheduler and returns when the simulation
// ended (root and all other tasks finished, deadlock, step limit, panic in a task, or replay
// divergence). It must be called from a goroutine that is not a task.
func Run(cfg Config, root func()) Result {
	if mode != ModePassthrough {
		panic("simrt.Run: nested simulation")
	}
	if cfg.MaxSteps == 0 {
		cfg.MaxSteps = 5_000_000
	}
	if cfg.DrainSteps == 0 {
		cfg.DrainSteps = 200_000
	}
	if cfg.MaxVirtualNs == 0 {
		cfg.MaxVirtualNs = 48 * 3600 * 1_000_000_000
	}
	if cfg.DilateMax == 0 {
		cfg.DilateMax = 2_000_000_000
	}
	if traceBuf == nil {
		traceBuf = make([]uint16, 1<<22)
	}
	s := &Sim{cfg: cfg, trace: traceBuf, doneCh: make(chan struct{}), allTasks: make([]*Task, 0, 1<<15)}
	s.rng = NewPRNG(cfg.Seed ^ 0x5ced5ced5ced)
	s.trng = NewPRNG(Mix(cfg.Seed, 11))
	s.prng = NewPRNG(Mix(cfg.Seed, 12))
	if cfg.Policy == PolPCT {
		s.pctN = cfg.PCTDepth
		if s.pctN > len(s.pctPoints) {
			s.pctN = len(s.pctPoints)
		}
		h := cfg.PCTHorizon
		if h <= 0 {
			h = 20000
		}
		for k := 0; k < s.pctN; k++ {
			s.pctPoints[k] = s.rng.Int63n(h)
		}
	}
	S = s
	rootT := s.newTask("root")
	s.root = rootT
	go s.taskMain(rootT, root)
	mode = ModeControlled
	s.cur = rootT
	unpark(rootT)
	<-s.doneCh
	// teardown
	res := Result{Outcome: s.outcome, PanicVal: s.panicVal, PanicStack: s.panicStack, PanicTask: s.panicTask,
		Steps: s.steps, Decisions: s.decisions, Preemptions: s.preemptions, VirtualNs: s.now, Tasks: len(s.allTasks),
		ClockJumps: s.clockJumps, TimerFires: s.timerFires, IdleJumps: s.idleJumps}
	res.Trace = make([]uint16, s.tlen)
	copy(res.Trace, s.trace[:s.tlen])
	if res.Outcome != "ok" {
		res.Blocked = s.describeBlocked()
	}
	for i := int32(0); i < s.n; i++ {
		if s.tasks[i].state != tsDone {
			res.Leftover++
		}
	}
	if !cfg.NoKill {
		for _, t := range s.allTasks {
			select {
			case <-t.exited:
				continue
			default:
			}
			killTask(t)
			<-t.exited
		}
	}
	S = nil
	mode = ModePassthrough
	return res
}

//go:norace
func killTask(t *Task) {
	t.kill = true
	unpark(t)
}

// PRNG is a small splitmix64/xorshift generator usable from norace code.
type PRNG struct{ s uint64 }

//go:norace
func NewPRNG(seed uint64) PRNG {
	p := PRNG{s: seed + 0x9E3779B97F4A7C15}
	p.Uint64()
	return p
}

//go:norace
func (p *PRNG) Uint64() uint64 {
	p.s += 0x9E3779B97F4A7C15
	z := p.s
	z = (z ^ (z >> 30)) * 0xBF58476D1CE4E5B9
	z = (z ^ (z >> 27)) * 0x94D049BB133111EB
	return z ^ (z >> 31)
}

//go:norace
func (p *PRNG) Intn(n int) int {
	if n <= 0 {
		return 0
	}
	return int(p.Uint64() % uint64(n))
}

//go:norace
func (p *PRNG) Int63n(n int64) int64 {
	if n <= 0 {
		return 0
	}
	return int64(p.Uint64() % uint64(n))
}

//go:norace
func (p *PRNG) Float64() float64 {
	return float64(p.Uint64()>>11) / float64(1<<53)
}

// Mix derives an independent seed from a seed and a stream index.
func Mix(seed uint64, stream uint64) uint64 {
	p := NewPRNG(seed ^ (stream * 0xD6E8FEB86659FD93))
	return p.Uint64()
}
