#!/usr/bin/env python3
"""keep_mut.py <id> <property> <caught_by(comma list or none)> <needs...>: store a confirmed seeded change under /verif/seeded/<id>/"""
import sys, os, shutil, json, glob, subprocess
mid, prop, caught = sys.argv[1], sys.argv[2], sys.argv[3]
needs = " ".join(sys.argv[4:])
W = f"/tmp/mut/{mid}"; D = f"/verif/seeded/{mid}"
os.makedirs(D, exist_ok=True)
shutil.copy(f"{W}/MUTATION/patch.diff", f"{D}/patch.diff")
for f in glob.glob(f"{W}/MUTATION/*"):
    if f.endswith("patch.diff"): continue
    if os.path.isfile(f) and os.path.getsize(f) < 200000: shutil.copy(f, D)
confirm = open(f"{W}/CONFIRM.log", errors="replace").read()[-1500:] if os.path.exists(f"{W}/CONFIRM.log") else ""
verdict = subprocess.run(f"grep -a 'existing tests:' {W}/CONFIRM.log", shell=True, capture_output=True, text=True).stdout.strip()
meta = {"id": mid, "breaks_property": prop, "needs_to_manifest": needs,
        "confirmed": {"compiles": True, "existing_tests": verdict, "demo": "fails with the change, passes without it (tools/confirm_mut.sh, log tail below)", "log_tail": confirm[-600:]},
        "what_i_ran": [f"tools/confirm_mut.sh {mid}  (go build ./...; go test of recovery, storage, catalog, parser, planner, samehada stable tests; demo with and without the change via git stash)",
                       f"tools/trymut.sh /tmp/mut/{mid} <property> 60  (= VERIF_REPO=<scratch worktree with the change> ./check <property> --budget 60)"],
        "caught_by": [c for c in caught.split(",") if c and c != "none"]}
json.dump(meta, open(f"{D}/meta.json", "w"), indent=1)
print("kept", D, meta["caught_by"])
