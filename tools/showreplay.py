#!/usr/bin/env python3
import json,sys
r=json.load(open(sys.argv[1]))
print("property",r['property'],"seed",r['seed'],"minimised",r['minimised'])
print("cfg",json.dumps(r['cfg']))
for i,o in enumerate(r.get('ops') or []): print(i,"T%s"%o.get('t'),o['op'],o.get('sql','')[:160])
print("faults",json.dumps(r.get('faults')))
v=r['violation']; print("class",v['class'],"site",v.get('site')); print("detail",v['detail'][:1500]); print("features",sorted(k for k,x in (v.get('features') or {}).items() if x))
