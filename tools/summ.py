#!/usr/bin/env python3
import sys, json, collections
cls=collections.Counter(); other=collections.Counter(); stats=collections.Counter(); out=collections.Counter()
ex={}
for l in sys.stdin:
    if not l.startswith("RUN "): 
        if l.startswith("END") or l.startswith("REPLAY"): print(l.strip()[:300])
        continue
    r=json.loads(l[4:])
    out[r['outcome']]+=1
    if r.get('infeasible'): cls['INFEASIBLE '+r['infeasible'][:150]]+=1
    for k,v in (r.get('stats') or {}).items(): stats[k]+=v
    for v in r.get('violations') or []:
        vi=v['violation']; k=f"{vi['property']} {vi['class']} site={vi.get('site','')}"
        cls[k]+=1
        if k not in ex: ex[k]=(r['run'], vi['detail'][:400], v.get('faults'), v.get('ops_count'), v.get('minimised'), sorted(k for k,x in (vi.get('features') or {}).items() if x))
    for k,v in ((r.get('extra') or {}).get('other_property_observations') or {}).items(): other[k]+=v
print("outcomes",dict(out))
for k,v in cls.most_common(): 
    print(v,k)
    if k in ex: print("     e.g. run",ex[k][0],"ops",ex[k][3],"min",ex[k][4],ex[k][1],"\n     faults",json.dumps(ex[k][2])[:300],"\n     feat",ex[k][5])
print("other",dict(other))
if '-s' in sys.argv: print("stats",json.dumps(dict(sorted(stats.items()))))
