#!/usr/bin/env python3
# regenerates /verif/MANIFEST.json from tools/props.py (single source of truth)
import json, os, sys
sys.path.insert(0, os.path.dirname(os.path.abspath(__file__)))
from props import PROPS
V = os.path.dirname(os.path.dirname(os.path.abspath(__file__)))
ALL = [f"C{i:02d}" for i in range(1, 21)]
NA = {
 "C18": "pure function of its arguments (index key encoding / RID packing): no schedule, clock, I/O, fault or shared state for a simulator to own; exhaustive enumeration or SMT are the fitting techniques, which are outside the family studied here (DESIGN.md section 5)",
}
checks = []
for pid in ALL:
    if pid not in PROPS:
        continue
    P = PROPS[pid]
    checks.append({
        "property_id": pid,
        "quick_cmd": f"./check {pid} --tier quick",
        "thorough_cmd": f"./check {pid} --tier thorough",
        "evidence_file": f"/verif/evidence/{pid}.json",
        "replay_cmd_template": f"./check {pid} --replay {{path}}",
        "engine": "simharness",
        "level_claimed": {"category": P.get("level", "exploration"), "text": P.get("level_text", "seeded search over simulated histories, schedules and fault sequences against the real engine code; a clean batch is evidence, not proof"), "design_ref": P.get("design_ref", "DESIGN.md section 4")},
        "level_note": P.get("level_note", "trusted base: the AST rewriter (tools/simrewrite), the simulator runtime (simrt: scheduler, substituted sync primitives wrapping the real ones, simulated channels/clock, recording disk decorator in front of the real DiskManagerImpl), the reference model and oracles in harness/"),
        "technique": P.get("technique", "deterministic simulation with fault injection"),
    })
na = [{"property_id": p, "reason": NA.get(p, "no check registered yet in this revision (machinery under construction); not claimed")} for p in ALL if p not in PROPS]
m = {
 "version": 1,
 "setup_cmd": "./tools/setup.sh",
 "hooks": {"guard": "verif", "enable": "no hook commits in /repo: every check copies /repo/lib (working tree) to a scratch directory and instruments the copy with tools/simrewrite (see DESIGN.md 2.1); harness built by tools/simbuild.sh",
           "baseline_off_cmd": "cd /repo/lib && go test -vet=off -count=1 -timeout 25m ./...", "source_commits": [], "add_only": True},
 "engines": [{"name": "simharness", "path": "/verif/harness", "serves_properties": [c["property_id"] for c in checks], "kind_free_text": "deterministic simulation with fault injection: seeded scheduler + simulated disk/clock over an instrumented copy of the real engine"}],
 "checks": checks,
 "not_applicable": na,
 "notes": "exit codes: 0 held (KNOWN-FINDING lines possible), 1 VIOLATION, 2 cannot decide (build/rewriter/watchdog). See DESIGN.md.",
}
json.dump(m, open(os.path.join(V, "MANIFEST.json"), "w"), indent=1)
print("checks:", [c["property_id"] for c in checks], "na:", [x["property_id"] for x in na])
