#!/bin/bash
# tools/confirm_mut.sh <id> : confirm a sub-agent mutant in its worktree /tmp/mut/<id>:
#  compiles, selected existing tests pass with the change, demo fails with the change and passes without.
# Writes /tmp/mut/<id>/CONFIRM.log and prints a one-line verdict.
id=$1; W=/tmp/mut/$id; L=$W/CONFIRM.log
export GOFLAGS=-mod=mod GOPROXY=off GOSUMDB=off GOTOOLCHAIN=local
cd $W/lib || exit 2
: > $L
# locate demo test files (untracked *_test.go in the worktree) 
demos=$(git -C $W status --porcelain -uall | grep '_test.go' | grep -v MUTATION | awk '{print $2}')
if [ -z "$demos" ]; then
  # the agent left the demo only under MUTATION/: place it by its package clause
  for f in $W/MUTATION/*_test.go; do
    [ -f "$f" ] || continue
    pk=$(grep -m1 '^package ' $f | awk '{print $2}')
    case $pk in
      samehada_test) dest=lib/samehada/samehada_test ;;
      recovery_test) dest=lib/recovery/recovery_test ;;
      executor_test) dest=lib/execution/executors/executor_test ;;
      index_test) dest=lib/storage/index/index_test ;;
      buffer) dest=lib/storage/buffer ;;
      access) dest=lib/storage/access ;;
      *) dest=lib/samehada/samehada_test ;;
    esac
    cp $f $W/$dest/
  done
  demos=$(git -C $W status --porcelain -uall | grep '_test.go' | grep -v MUTATION | awk '{print $2}')
fi
echo "demo files: $demos" >> $L
ok=1
# the worktree must carry exactly MUTATION/patch.diff (never `git stash`: worktrees share one stash)
git -C $W checkout -- . && git -C $W apply $W/MUTATION/patch.diff || { echo "$id: patch.diff does not apply to a clean tree"; exit 1; }
go build ./... >> $L 2>&1 || { echo "$id: DOES NOT COMPILE"; exit 1; }
echo "== existing tests with the change (demo files moved aside)" >> $L
mkdir -p /tmp/mut/$id.demos; for d in $demos; do mv $W/$d /tmp/mut/$id.demos/$(echo $d | tr / %); done
go test -vet=off -count=1 ./recovery/... ./storage/... ./catalog/... ./parser/... ./planner/... ./samehada/samehada_util/... >> $L 2>&1 || ok=0
# the stable tests of samehada_test (exclude the agent's demo by name)
go test -vet=off -count=1 -run 'TestHasJoinSelect|TestInsertAndMultiItemPredicateSelect|TestParallelQueryIssue|TestParallelQueryIssueSelectUpdate|TestRebootAndReturnIFValuesWithCheckpoint|TestSimpleDelete|TestSimpleUpdate' ./samehada/samehada_test/ >> $L 2>&1 || ok=0
[ $ok = 1 ] && echo "existing tests: PASS" >> $L || echo "existing tests: FAIL" >> $L
for d in $demos; do mv /tmp/mut/$id.demos/$(echo $d | tr / %) $W/$d; done; rmdir /tmp/mut/$id.demos
demo_pkgs=""
for d in $demos; do demo_pkgs="$demo_pkgs ./$(dirname ${d#lib/})/"; done
demo_pkgs=$(echo $demo_pkgs | tr ' ' '\n' | sort -u | tr '\n' ' ')
names=$(cat $(for d in $demos; do echo $W/$d; done) 2>/dev/null | grep -o '^func Test[A-Za-z0-9_]*' | sed 's/func //' | tr '\n' '|' | sed 's/|$//')
echo "== demo ($names) in $demo_pkgs WITH the change" >> $L
go test -vet=off -count=1 -run "$names" $demo_pkgs >> $L 2>&1; with=$?
# without: revert tracked changes only
git -C $W checkout -- .
echo "== demo WITHOUT the change" >> $L
go test -vet=off -count=1 -run "$names" $demo_pkgs >> $L 2>&1; without=$?
git -C $W apply $W/MUTATION/patch.diff
echo "$id: compile=ok existing_tests=$([ $ok = 1 ] && echo pass || echo FAIL) demo_with_change_exit=$with demo_without_change_exit=$without"
