// simrewrite mechanically instruments a scratch copy of SamehadaDB's lib module (and of the
// bltree module) so that every source of nondeterminism goes through verif/simrt.
// See /verif/DESIGN.md section 2.1 for the rule table. Constructs it does not know make it
// exit 2 ("cannot decide"), never silently pass.
//
// usage: simrewrite -dir <module dir> [-skipfile rel/path.go ...] [-probes] [-probebase N] [-manifest out.json]
package main

import (
	"encoding/json"
	"flag"
	"fmt"
	"go/ast"
	"go/format"
	"go/token"
	"go/types"
	"os"
	"path/filepath"
	"sort"
	"strings"

	"golang.org/x/tools/go/packages"
)

type edit struct {
	pos, end int // byte offsets; pos==end is an insertion
	text     string
	prio     int // order among insertions at the same offset (lower first)
}

type site struct {
	File string `json:"file"`
	Line int    `json:"line"`
	Rule string `json:"rule"`
	Note string `json:"note,omitempty"`
}

type probeInfo struct {
	ID   int    `json:"id"`
	Func string `json:"func"`
	File string `json:"file"`
	Line int    `json:"line"`
}

type manifest struct {
	Dir    string      `json:"dir"`
	Sites  []site      `json:"sites"`
	Probes []probeInfo `json:"probes"`
	Counts map[string]int `json:"counts"`
}

type multiFlag []string

func (m *multiFlag) String() string     { return strings.Join(*m, ",") }
func (m *multiFlag) Set(s string) error { *m = append(*m, s); return nil }

var (
	dir        = flag.String("dir", "", "module directory to rewrite in place")
	withProbes = flag.Bool("probes", true, "insert function-entry probes")
	probeBase  = flag.Int("probebase", 0, "first probe id")
	manifestFn = flag.String("manifest", "", "write site manifest JSON here")
	diskPkg    = flag.String("diskpkg", "github.com/ryogrid/SamehadaDB/lib/storage/disk", "package whose constructors are renamed for the disk seam")
	skipFiles  multiFlag
)

var fatalCount int

func cannot(fset *token.FileSet, pos token.Pos, msg string) {
	fmt.Fprintf(os.Stderr, "simrewrite: CANNOT DECIDE: %s: %s\n", fset.Position(pos), msg)
	fatalCount++
}

func main() {
	flag.Var(&skipFiles, "skipfile", "file (relative to -dir) left untouched by R2/R3 (repeatable)")
	flag.Parse()
	if *dir == "" {
		fmt.Fprintln(os.Stderr, "need -dir")
		os.Exit(2)
	}
	abs, _ := filepath.Abs(*dir)
	cfg := &packages.Config{
		Mode:  packages.NeedName | packages.NeedFiles | packages.NeedCompiledGoFiles | packages.NeedSyntax | packages.NeedTypes | packages.NeedTypesInfo | packages.NeedImports,
		Dir:   abs,
		Tests: false,
		Env:   os.Environ(),
	}
	pkgs, err := packages.Load(cfg, "./...")
	if err != nil {
		fmt.Fprintln(os.Stderr, "simrewrite: load:", err)
		os.Exit(2)
	}
	bad := false
	for _, p := range pkgs {
		for _, e := range p.Errors {
			fmt.Fprintln(os.Stderr, "simrewrite: package error:", e)
			bad = true
		}
	}
	if bad {
		os.Exit(2)
	}
	man := &manifest{Dir: abs, Counts: map[string]int{}}
	nextProbe := *probeBase
	sort.Slice(pkgs, func(i, j int) bool { return pkgs[i].PkgPath < pkgs[j].PkgPath })
	for _, p := range pkgs {
		for i, f := range p.Syntax {
			fn := p.CompiledGoFiles[i]
			if !strings.HasPrefix(fn, abs) || strings.HasSuffix(fn, "_test.go") {
				continue
			}
			rel, _ := filepath.Rel(abs, fn)
			skip := false
			for _, s := range skipFiles {
				if s == rel {
					skip = true
				}
			}
			rw := &rewriter{pkg: p, file: f, fset: p.Fset, fname: fn, rel: rel, man: man, skipConc: skip, nextProbe: &nextProbe}
			if err := rw.run(); err != nil {
				fmt.Fprintln(os.Stderr, "simrewrite:", err)
				os.Exit(2)
			}
		}
	}
	if fatalCount > 0 {
		os.Exit(2)
	}
	if *manifestFn != "" {
		b, _ := json.MarshalIndent(man, "", " ")
		if err := os.WriteFile(*manifestFn, b, 0644); err != nil {
			fmt.Fprintln(os.Stderr, err)
			os.Exit(2)
		}
	}
	fmt.Printf("simrewrite: %s: %d sites, %d probes (next probe id %d)\n", abs, len(man.Sites), len(man.Probes), nextProbe)
}

type rewriter struct {
	pkg       *packages.Package
	file      *ast.File
	fset      *token.FileSet
	fname     string
	rel       string
	man       *manifest
	skipConc  bool
	nextProbe *int
	edits     []edit
	src       []byte
	needSimrt bool
	keep      map[string]string // import name -> keepalive expression
	handledChanTypes map[*ast.ChanType]bool
}

func (r *rewriter) off(p token.Pos) int { return r.fset.Position(p).Offset }

func (r *rewriter) replace(pos, end token.Pos, text string) {
	r.edits = append(r.edits, edit{r.off(pos), r.off(end), text, 0})
}
func (r *rewriter) insert(pos token.Pos, text string, prio int) {
	o := r.off(pos)
	r.edits = append(r.edits, edit{o, o, text, prio})
}
func (r *rewriter) note(pos token.Pos, rule, note string) {
	r.man.Sites = append(r.man.Sites, site{r.rel, r.fset.Position(pos).Line, rule, note})
	r.man.Counts[rule]++
}
func (r *rewriter) text(n ast.Node) string { return string(r.src[r.off(n.Pos()):r.off(n.End())]) }

func (r *rewriter) pkgNameOf(e ast.Expr) string {
	id, ok := e.(*ast.Ident)
	if !ok {
		return ""
	}
	if pn, ok := r.pkg.TypesInfo.Uses[id].(*types.PkgName); ok {
		return pn.Imported().Path()
	}
	return ""
}

func (r *rewriter) typeOf(e ast.Expr) types.Type {
	if tv, ok := r.pkg.TypesInfo.Types[e]; ok {
		return tv.Type
	}
	return nil
}

func isSimpleOperand(e ast.Expr) bool {
	switch x := e.(type) {
	case *ast.Ident:
		return true
	case *ast.SelectorExpr:
		return isSimpleOperand(x.X)
	case *ast.ParenExpr:
		return isSimpleOperand(x.X)
	case *ast.StarExpr:
		return isSimpleOperand(x.X)
	}
	return false
}

func (r *rewriter) run() error {
	var err error
	r.src, err = os.ReadFile(r.fname)
	if err != nil {
		return err
	}
	r.keep = map[string]string{}
	r.handledChanTypes = map[*ast.ChanType]bool{}
	info := r.pkg.TypesInfo

	// R1: import "sync" -> simsync (keeping the local name `sync`)
	localName := map[string]string{} // import path -> local name
	for _, is := range r.file.Imports {
		path := strings.Trim(is.Path.Value, `"`)
		name := ""
		if is.Name != nil {
			name = is.Name.Name
		} else {
			name = path[strings.LastIndex(path, "/")+1:]
		}
		localName[path] = name
		if path == "sync" {
			if is.Name != nil {
				r.replace(is.Path.Pos(), is.Path.End(), `"verif/simrt/simsync"`)
			} else {
				r.replace(is.Path.Pos(), is.Path.End(), `sync "verif/simrt/simsync"`)
			}
			r.note(is.Pos(), "R1", "sync")
		}
	}

	// disk seam: rename the constructors inside the disk package
	if r.pkg.PkgPath == *diskPkg {
		for _, d := range r.file.Decls {
			if fd, ok := d.(*ast.FuncDecl); ok && fd.Recv == nil {
				if fd.Name.Name == "NewDiskManagerImpl" || fd.Name.Name == "NewVirtualDiskManagerImpl" {
					r.replace(fd.Name.Pos(), fd.Name.End(), "simOrig"+fd.Name.Name)
					r.note(fd.Pos(), "R8", fd.Name.Name)
				}
			}
		}
	}

	var stack []ast.Node
	ast.Inspect(r.file, func(n ast.Node) bool {
		if n == nil {
			stack = stack[:len(stack)-1]
			return true
		}
		stack = append(stack, n)
		switch x := n.(type) {
		case *ast.GoStmt:
			if r.skipConc {
				return true
			}
			r.rewriteGo(x)
		case *ast.SendStmt:
			if r.skipConc {
				return true
			}
			r.insert(x.Pos(), "simrt.Send(", 5)
			r.replace(x.Arrow, x.Arrow+2, ",")
			r.insert(x.End(), ")", -5)
			r.needSimrt = true
			r.note(x.Pos(), "R3", "send")
		case *ast.UnaryExpr:
			if x.Op == token.ARROW && !r.skipConc {
				fn := "simrt.Recv("
				// v, ok := <-ch ?
				if len(stack) >= 2 {
					switch par := stack[len(stack)-2].(type) {
					case *ast.AssignStmt:
						if len(par.Lhs) == 2 && len(par.Rhs) == 1 && par.Rhs[0] == x {
							fn = "simrt.Recv2("
						}
					case *ast.ValueSpec:
						if len(par.Names) == 2 && len(par.Values) == 1 && par.Values[0] == x {
							fn = "simrt.Recv2("
						}
					}
				}
				r.replace(x.OpPos, x.OpPos+2, fn)
				r.insert(x.End(), ")", -5)
				r.needSimrt = true
				r.note(x.Pos(), "R3", "recv")
			}
		case *ast.SelectStmt:
			if !r.skipConc {
				cannot(r.fset, x.Pos(), "select statement: no rewrite rule")
			}
		case *ast.ChanType:
			if r.skipConc || r.handledChanTypes[x] {
				return true
			}
			r.replace(x.Begin, x.Value.Pos(), "*simrt.Chan[")
			r.insert(x.End(), "]", -4)
			r.needSimrt = true
			r.note(x.Pos(), "R3", "chan type")
		case *ast.CallExpr:
			r.rewriteCall(x)
		case *ast.RangeStmt:
			t := r.typeOf(x.X)
			if t == nil {
				return true
			}
			switch t.Underlying().(type) {
			case *types.Map:
				r.rewriteMapRange(x)
			case *types.Chan:
				if !r.skipConc {
					cannot(r.fset, x.Pos(), "range over channel: no rewrite rule")
				}
			}
		case *ast.SelectorExpr:
			path := r.pkgNameOf(x.X)
			switch path {
			case "time":
				switch x.Sel.Name {
				case "Sleep", "Now", "Since":
					r.replace(x.Pos(), x.End(), "simrt."+x.Sel.Name)
					r.needSimrt = true
					r.keep[localName["time"]] = localName["time"] + ".Second"
					r.note(x.Pos(), "R4", x.Sel.Name)
				case "After", "Tick", "NewTimer", "NewTicker", "AfterFunc", "Until":
					cannot(r.fset, x.Pos(), "time."+x.Sel.Name+": no rewrite rule")
				}
			case "math/rand":
				if obj, ok := info.Uses[x.Sel].(*types.Func); ok && obj != nil {
					switch x.Sel.Name {
					case "New", "NewSource", "NewZipf":
						// explicit generators are seeded by the caller: deterministic already
					default:
						r.replace(x.Pos(), x.End(), "simrt.Rand()."+x.Sel.Name)
						r.needSimrt = true
						r.keep[localName["math/rand"]] = localName["math/rand"] + ".Int"
						r.note(x.Pos(), "R7", x.Sel.Name)
					}
				}
			case "runtime":
				if x.Sel.Name == "Gosched" {
					r.replace(x.Pos(), x.End(), "simrt.Yield")
					r.needSimrt = true
					r.keep[localName["runtime"]] = localName["runtime"] + ".NumCPU"
					r.note(x.Pos(), "R9", "Gosched")
				}
			case "golang.org/x/exp/maps", "maps":
				// handled at the call
			}
		case *ast.FuncDecl:
			if *withProbes && x.Body != nil {
				id := *r.nextProbe
				*r.nextProbe = id + 1
				name := x.Name.Name
				if x.Recv != nil && len(x.Recv.List) > 0 {
					name = strings.TrimPrefix(types.ExprString(x.Recv.List[0].Type), "*") + "." + name
				}
				r.insert(x.Body.Lbrace+1, fmt.Sprintf(" simrt.Probe(%d); ", id), 0)
				r.needSimrt = true
				r.man.Probes = append(r.man.Probes, probeInfo{id, r.pkg.PkgPath + "." + name, r.rel, r.fset.Position(x.Pos()).Line})
			}
		}
		return true
	})

	if len(r.edits) == 0 {
		return nil
	}
	// apply edits back to front
	sort.SliceStable(r.edits, func(i, j int) bool {
		a, b := r.edits[i], r.edits[j]
		if a.pos != b.pos {
			return a.pos < b.pos
		}
		// insertions at the same offset: an insertion that closes something (negative prio) comes
		// before one that opens something; replacements after insertions
		ai, bi := a.pos == a.end, b.pos == b.end
		if ai != bi {
			return ai
		}
		return a.prio < b.prio
	})
	var out []byte
	last := 0
	for _, e := range r.edits {
		if e.pos < last {
			return fmt.Errorf("%s: overlapping edits at offset %d (%q)", r.rel, e.pos, e.text)
		}
		out = append(out, r.src[last:e.pos]...)
		out = append(out, e.text...)
		last = e.end
	}
	out = append(out, r.src[last:]...)
	res := string(out)
	if r.needSimrt {
		// add the import right after the package clause
		pkgEnd := r.off(r.file.Name.End())
		// offsets shifted: find the package clause textually instead
		_ = pkgEnd
		idx := strings.Index(res, "package "+r.file.Name.Name)
		if idx < 0 {
			return fmt.Errorf("%s: package clause not found", r.rel)
		}
		nl := strings.Index(res[idx:], "\n")
		ins := idx + nl + 1
		res = res[:ins] + "\nimport simrt \"verif/simrt\"\n" + res[ins:]
		res += "\nvar _ = simrt.Probe\n"
	}
	names := make([]string, 0, len(r.keep))
	for n := range r.keep {
		names = append(names, n)
	}
	sort.Strings(names)
	for _, n := range names {
		res += "var _ = " + r.keep[n] + "\n"
	}
	fm, err := format.Source([]byte(res))
	if err != nil {
		os.WriteFile(r.fname+".simrewrite-broken", []byte(res), 0644)
		return fmt.Errorf("%s: rewritten source does not parse: %v", r.rel, err)
	}
	return os.WriteFile(r.fname, fm, 0644)
}

var tmpCounter int

func (r *rewriter) rewriteGo(g *ast.GoStmt) {
	sitePos := r.fset.Position(g.Pos())
	siteStr := fmt.Sprintf("%s:%d", r.rel, sitePos.Line)
	call := g.Call
	r.needSimrt = true
	r.note(g.Pos(), "R2", siteStr)
	if fl, ok := call.Fun.(*ast.FuncLit); ok && len(call.Args) == 0 {
		// go func(){...}()  ->  simrt.Go(site, func(){...})
		r.replace(g.Pos(), fl.Pos(), fmt.Sprintf("simrt.Go(%q, ", siteStr))
		r.replace(fl.End(), call.End(), ")")
		return
	}
	// general case: evaluate function value and arguments now, call later
	tmpCounter++
	var sb strings.Builder
	sb.WriteString("{ ")
	fnName := fmt.Sprintf("simFn%d", tmpCounter)
	if _, ok := call.Fun.(*ast.FuncLit); ok {
		// function literal with arguments: keep literal, hoist args
		sb.WriteString(fnName + " := ")
		// the literal may contain nested constructs we rewrite elsewhere; nested edits inside
		// a replaced region are not supported, so refuse literals with arguments
		cannot(r.fset, g.Pos(), "go func(args){...}(args) form: hoist the arguments manually or extend the rewriter")
		return
	}
	sb.WriteString(fnName + " := " + r.text(call.Fun) + "; ")
	var argNames []string
	for i, a := range call.Args {
		an := fmt.Sprintf("simArg%d_%d", tmpCounter, i)
		sb.WriteString(an + " := " + r.text(a) + "; ")
		argNames = append(argNames, an)
	}
	ell := ""
	if call.Ellipsis.IsValid() {
		ell = "..."
	}
	sb.WriteString(fmt.Sprintf("simrt.Go(%q, func() { %s(%s%s) }) }", siteStr, fnName, strings.Join(argNames, ", "), ell))
	// the arguments must not themselves contain constructs with pending edits; check for channel ops
	hasInner := false
	ast.Inspect(call, func(n ast.Node) bool {
		switch x := n.(type) {
		case *ast.UnaryExpr:
			if x.Op == token.ARROW {
				hasInner = true
			}
		case *ast.FuncLit, *ast.ChanType:
			hasInner = true
		}
		return true
	})
	if hasInner {
		cannot(r.fset, g.Pos(), "go statement whose call contains channel operations or literals")
		return
	}
	r.replace(g.Pos(), g.End(), sb.String())
}

func (r *rewriter) rewriteCall(c *ast.CallExpr) {
	info := r.pkg.TypesInfo
	// make(chan T[, n])
	if id, ok := c.Fun.(*ast.Ident); ok {
		if _, isBuiltin := info.Uses[id].(*types.Builtin); isBuiltin {
			switch id.Name {
			case "make":
				if ct, ok := c.Args[0].(*ast.ChanType); ok && !r.skipConc {
					r.handledChanTypes[ct] = true
					r.replace(c.Pos(), ct.Value.Pos(), "simrt.MakeChan[")
					if len(c.Args) > 1 {
						r.replace(ct.End(), c.Args[1].Pos(), "](")
					} else {
						r.replace(ct.End(), c.Rparen, "](0")
					}
					r.needSimrt = true
					r.note(c.Pos(), "R3", "make chan")
				} else if t := r.typeOf(c.Args[0]); t != nil && !r.skipConc {
					if _, isChan := t.Underlying().(*types.Chan); isChan {
						cannot(r.fset, c.Pos(), "make of a named channel type")
					}
				}
			case "close":
				if !r.skipConc {
					r.replace(id.Pos(), id.End(), "simrt.Close")
					r.needSimrt = true
					r.note(c.Pos(), "R3", "close")
				}
			case "len", "cap":
				if t := r.typeOf(c.Args[0]); t != nil && !r.skipConc {
					if _, isChan := t.Underlying().(*types.Chan); isChan {
						m := "Len"
						if id.Name == "cap" {
							m = "Cap"
						}
						r.replace(c.Pos(), c.Args[0].Pos(), "(")
						r.replace(c.Args[0].End(), c.End(), ")."+m+"()")
						r.note(c.Pos(), "R3", id.Name)
					}
				}
			}
			return
		}
	}
	// maps.Keys(m) / maps.Values / set.ToSlice()   (also with explicit instantiation: maps.Keys[M](m))
	fun := c.Fun
	switch ix := fun.(type) {
	case *ast.IndexExpr:
		fun = ix.X
	case *ast.IndexListExpr:
		fun = ix.X
	}
	if sel, ok := fun.(*ast.SelectorExpr); ok {
		path := r.pkgNameOf(sel.X)
		if (path == "golang.org/x/exp/maps" || path == "maps") && sel.Sel.Name == "Keys" {
			r.insert(c.Pos(), "simrt.OrderKeys(", 5)
			r.insert(c.End(), ")", -5)
			r.needSimrt = true
			r.note(c.Pos(), "R6", "maps.Keys")
			return
		}
		if (path == "golang.org/x/exp/maps" || path == "maps") && sel.Sel.Name == "Values" {
			cannot(r.fset, c.Pos(), "maps.Values: order-dependent, no rewrite rule")
			return
		}
		if sel.Sel.Name == "ToSlice" && len(c.Args) == 0 {
			if t := r.typeOf(sel.X); t != nil && strings.Contains(t.String(), "golang-set") {
				r.insert(c.Pos(), "simrt.OrderKeys(", 5)
				r.insert(c.End(), ")", -5)
				r.needSimrt = true
				r.note(c.Pos(), "R6", "ToSlice")
			}
		}
		if (sel.Sel.Name == "Each" || sel.Sel.Name == "Iter" || sel.Sel.Name == "Iterator") && len(c.Args) <= 1 {
			if t := r.typeOf(sel.X); t != nil && strings.Contains(t.String(), "golang-set") {
				cannot(r.fset, c.Pos(), "mapset iteration in hash order: no rewrite rule")
			}
		}
	}
}

func (r *rewriter) rewriteMapRange(x *ast.RangeStmt) {
	if !isSimpleOperand(x.X) {
		cannot(r.fset, x.Pos(), "range over a map expression that is not a plain variable/field: "+r.text(x.X))
		return
	}
	m := r.text(x.X)
	tok := x.Tok.String() // := or = or ILLEGAL (no vars)
	keyTxt, valTxt := "", ""
	if x.Key != nil {
		keyTxt = r.text(x.Key)
	}
	if x.Value != nil {
		valTxt = r.text(x.Value)
	}
	r.needSimrt = true
	r.note(x.Pos(), "R5", m)
	tmpCounter++
	kname := keyTxt
	hdr := ""
	body := ""
	switch {
	case x.Key == nil || keyTxt == "_":
		if x.Value == nil || valTxt == "_" {
			// only the number of iterations matters
			hdr = fmt.Sprintf("for range simrt.MapKeys(%s) ", m)
		} else {
			kname = fmt.Sprintf("simK%d", tmpCounter)
			hdr = fmt.Sprintf("for _, %s := range simrt.MapKeys(%s) ", kname, m)
		}
	default:
		if tok == ":=" {
			hdr = fmt.Sprintf("for _, %s := range simrt.MapKeys(%s) ", keyTxt, m)
		} else {
			hdr = fmt.Sprintf("for _, %s = range simrt.MapKeys(%s) ", keyTxt, m)
		}
	}
	if x.Value != nil && valTxt != "_" {
		okn := fmt.Sprintf("simOk%d", tmpCounter)
		if tok == ":=" {
			body = fmt.Sprintf(" %s, %s := %s[%s]; if !%s { continue }; ", valTxt, okn, m, kname, okn)
		} else {
			body = fmt.Sprintf(" var %s bool; %s, %s = %s[%s]; if !%s { continue }; ", okn, valTxt, okn, m, kname, okn)
		}
	} else {
		// key only: skip keys deleted meanwhile, as the language does
		if kname != "" && kname != "_" {
			okn := fmt.Sprintf("simOk%d", tmpCounter)
			body = fmt.Sprintf(" if _, %s := %s[%s]; !%s { continue }; ", okn, m, kname, okn)
		}
	}
	if strings.HasPrefix(hdr, "for range") {
		// Go 1.21 language level: `for range x` is fine
	}
	r.replace(x.Pos(), x.Body.Lbrace, hdr)
	if body != "" {
		r.insert(x.Body.Lbrace+1, body, 1)
	}
}
