#!/bin/bash
# offline set-up after a fresh restore: build the rewriter and warm the harness build cache
set -e
cd /verif
export GOFLAGS=-mod=mod GOPROXY=off GOSUMDB=off GOTOOLCHAIN=local
mkdir -p .bin .cache evidence replays
(cd tools/simrewrite && go build -o /verif/.bin/simrewrite .)
tools/simbuild.sh >/dev/null
echo setup ok
