#!/bin/bash
# Determinism self-test: for every driver, the same VERIF_SEED range is executed in several
# processes with GOMAXPROCS 1 / 4 / 16; the per-run event hashes must be identical.
# usage: tools/selftest_determinism.sh [runs-per-driver]   exit 0 = deterministic, 1 = divergence found
cd /verif
N=${1:-120}
H=$(tools/simbuild.sh 2>/dev/null) || { echo "build failed"; exit 2; }
D=$(mktemp -d -p /dev/shm verif-det.XXXX); trap 'rm -rf $D' EXIT
rc=0
for spec in "crashsim C01" "crashsim C20" "sqlsim C09" "sqlsim C10" "sqlsim C06" "sqlsim C11" "sqlsim C03" "txnsim C04" "consim C12" "consim C04" "consim C17" "consim C16" "consim C13" "consim C08" "consim C09" "consim C03" "crashsim C10" "sqlsim C07" "pagesim C15" "locksim C16" "bpmsim C13" "idxsim C17"; do
  set -- $spec; drv=$1; prop=$2
  n=$N; [ $drv = crashsim ] && n=$(( (N+3)/4 ))   # crash explorations are two orders of magnitude slower per run
  i=0
  for g in 1 4 16 2; do
    i=$((i+1))
    ( GOMAXPROCS=$g timeout 900 $H $drv -prop $prop -seed 424242 -start 0 -runs $n -det 2>/dev/null | grep '^DET' > $D/$drv.$prop.$i ) &
  done
  wait
  ok=1
  for i in 2 3 4; do
    if ! cmp -s $D/$drv.$prop.1 $D/$drv.$prop.$i; then ok=0; fi
  done
  n=$(wc -l < $D/$drv.$prop.1)
  if [ $ok = 1 ] && [ "$n" -gt 0 ]; then echo "deterministic: $drv/$prop ($n runs x 4 processes, GOMAXPROCS 1/4/16/2)"; else echo "DIVERGENCE: $drv/$prop"; diff $D/$drv.$prop.1 $D/$drv.$prop.2 | head -4; rc=1; fi
done
exit $rc
