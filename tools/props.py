# property table for /verif/check: driver, budgets (seconds of exploration after the build), evidence text
CRASH_RULE = ("one evaluation = one seeded simulated history (swarm-drawn schema, pool size, row widths, transaction slots, abort/"
              "checkpoint/auto-commit mix) executed by a single driver against the real engine with every WritePage/WriteLog/"
              "GCLogFile recorded at the DiskManager seam, followed by a restart of the real engine on crash images cut from the "
              "recording (every prefix after set-up when <= max_images I/O events, else all commit/abort/checkpoint windows plus a "
              "seeded sample; torn variants of the last write; nested crashes inside the recovery run). distinct = distinct "
              "signature (op kinds + per-op outcome + sequence of I/O kinds); non-trivial = at least one crash image was "
              "recovered and compared with the model")
PROPS = {
 "C01": dict(driver="crashsim+sqlsim", budget=dict(quick=75, thorough=1500), chunk=8, rule=CRASH_RULE + "; second driver (alternating chunks): sequential SQL histories with several clean and crash-style restarts at quiescent points (sessions that log nothing, restarts in a row, DDL, statistics), every table compared with the reference model after each crash restart",
             technique="deterministic simulation: recorded I/O trace, crash/torn-write fault injection at every prefix, reference-model oracle",
             assumptions=["crash model: ordered prefix of page and log writes, optionally with the final write torn (512-byte sectors / byte-granular log tail); loss or reordering of un-fsynced page writes is not modelled",
                          "crash points before the first start-up completed (bootstrap of an empty database) are not explored",
                          "the reference model applies a statement's effect to committed data plus the transaction's own writes; a statement the engine refuses aborts the transaction"]),
 "C02": dict(driver="crashsim", budget=dict(quick=75, thorough=1500), chunk=8, rule=CRASH_RULE,
             technique="deterministic simulation: recorded I/O trace, crash/torn-write fault injection at every prefix, reference-model oracle",
             assumptions=["same crash model as C01", "a difference is attributed to C02 when the surviving/missing row version belongs to a transaction that had not committed at the crash point, otherwise to C01"]),
 "C08": dict(driver="crashsim+consim", budget=dict(quick=60, thorough=900), chunk=20, rule=CRASH_RULE.replace("followed by a restart", "checked by the M-WAL seam monitor (every WritePage/WriteLog/commit-return of the run); for the crash properties followed by a restart"),
             technique="deterministic simulation with a seam monitor over the recorded I/O trace (independent log decoder)",
             assumptions=["a heap page's embedded LSN of 0 means never stamped", "LSNs are handed out and flushed in order, so a page LSN is durable iff it is <= the highest LSN seen in WriteLog payloads so far"]),
 "C20": dict(driver="crashsim", budget=dict(quick=75, thorough=1500), chunk=8, rule=CRASH_RULE,
             technique="deterministic simulation: nested crash injection inside the recovery run's own I/O trace",
             assumptions=["same crash model as C01", "only images whose single-crash recovery is already correct are nested, so a C20 violation is a failure that needs the second crash"]),

}
SQL_RULE = ("one evaluation = one seeded sequential history against the real engine and the reference model: swarm-drawn schemas "
            "(int/float/varchar columns, 1-2 tables + tables created later), pool size, row widths, transactions with aborts, "
            "statistics refreshes, forced checkpoints, clean shutdown/reopen and crash-style stop/reopen at quiescent points; at "
            "every quiescent point the seam monitors run (heap vs model, catalog identity, M-IDX index vs heap for every key and a "
            "full ordered scan, M-PAGE layout of every heap page, M-PIN pin vector around every statement). distinct = distinct "
            "signature (sequence of op kinds, statement kinds and per-op outcomes); non-trivial = at least one statement or commit executed")
for _p, _b, _t in [("C03", 60, "abort oracle: observable state (full scans, index point and range queries) before begin vs after abort"),
                   ("C07", 60, "seam monitor M-IDX at quiescent points of simulated histories with aborts and restarts"),
                   ("C09", 60, "clean shutdown/reopen injected at quiescent points; query battery before vs after vs model"),
                   ("C10", 60, "DDL interleaved with DML and clean/crash restarts; catalog identity and per-table contents"),
                   ("C14", 60, "seam monitor M-PIN: pin vector before/after every statement (success, refusal, abort)")]:
    PROPS[_p] = dict(driver={"C10": "sqlsim+crashsim", "C09": "sqlsim+consim", "C03": "sqlsim+consim"}.get(_p, "sqlsim"), budget=dict(quick=_b, thorough=1200), chunk=40 if _p != "C10" else 16,
                     rule=SQL_RULE + ("; second driver (alternating chunks): crashsim histories that contain CREATE TABLE operations, restarted from every crash image inside and around the DDL (table present iff its CREATE had returned, or all-or-nothing while in flight; catalog identity checked after every recovered image)" if _p == "C10" else "") + ("; second driver (alternating chunks): concurrent insert/delete/update callers under the seeded scheduler with the checkpoint and statistics tasks alive, then Shutdown() (which may catch those tasks in the middle of a pass), reopen, and the same rows must be there" if _p == "C09" else "") + ("; second driver (alternating chunks): concurrent multi-statement transactions under the seeded scheduler, 40% of them ending in an explicit abort and others aborted by a lock conflict in the middle of a statement: nothing an aborted transaction wrote is in the final table and every row it touched is what the committed transactions left" if _p == "C03" else ""),
                     technique="deterministic simulation (sequential driver, restart fault injection) with reference model: " + _t + {"C03": "; plus concurrent transactions under the seeded scheduler (abort traces in the final state)", "C09": "; plus Shutdown() under the seeded scheduler while the checkpoint/statistics tasks are alive, then reopen", "C10": "; plus crash images cut inside and around CREATE TABLE from the recorded I/O trace"}.get(_p, ""),
                     assumptions=["single driver: statements of different transactions interleave at statement granularity only (sub-statement interleavings are the consim checks)",
                                  "multi-row VALUES lists and parenthesised predicates are not accepted by the SQL front end and are not generated"])
for _p, _t in [("C06", "statement answers vs reference model, each history executed in two environments (map order / pool size / statistics timing) so that the plan chosen differs"),
               ("C11", "join answers vs naive nested-loop evaluation in the reference model, two environments per history, statistics steered by refresh operations")]:
    PROPS[_p] = dict(driver="sqlsim", budget=dict(quick=60, thorough=1200), chunk=40,
                     rule=SQL_RULE + "; for C06/C11 every history is executed in two environments and the plan shapes per statement are compared",
                     technique="deterministic simulation (environment-varied: statistics-thread timing, map order, pool size) with reference model: " + _t,
                     assumptions=["the input dimension (schemas, rows, predicates) is sampled by a generator; the simulator owns the environment dimension (statistics timing, plan tie-breaks, pool size)",
                                  "parenthesised predicates and multi-row VALUES lists are outside the supported SQL subset and are not generated",
                                  "NULL compares as unknown (row not selected) in the reference model"])
UNIT_RULE = ("one evaluation = one seeded operation sequence (a pure function of the seed and its length) against the real component "
             "and a small reference model, with the invariants checked after every operation; distinct = distinct operation/outcome "
             "sequence; every run is non-trivial (all runs execute operations); a failing sequence is reduced by bisection on its length")
PROPS["C15"] = dict(driver="pagesim", budget=dict(quick=30, thorough=600), chunk=200, rule=UNIT_RULE + "; page layout invariants (M-PAGE) are additionally evaluated on the heap pages produced by every SQL-level simulation",
    technique="seeded operation sequences on a single TablePage in recovery-phase mode against a slot->bytes model, layout invariants on raw page bytes after every operation (simulation adds M-PAGE on page histories produced by interleaved transactions, rollbacks and redo/undo in the other checks)",
    assumptions=["the property has no schedule or fault in its statement: the dedicated driver is input generation; what the simulator adds is M-PAGE over the page histories of the crash/SQL simulations (counted there as mpage_pages_checked)",
                 "a shrinking in-place update outside rollback mode is refused by design (the caller relocates the row)"])
PROPS["C16"] = dict(driver="locksim+consim", budget=dict(quick=40, thorough=600), chunk=100, rule=UNIT_RULE + "; concurrent part: 2-6 transaction tasks issue the same requests under the seeded scheduler, compatibility invariant after every step",
    technique="seeded request sequences on the real LockManager/TransactionManager against an abstract lock table (sequential part; the concurrent part runs under the controlled scheduler)",
    assumptions=["LockUpgrade is only requested when the model says the caller holds the shared lock (the API's stated precondition)"])
PROPS["C13"] = dict(driver="bpmsim+consim", budget=dict(quick=40, thorough=900), chunk=100,
    rule=UNIT_RULE + "; concurrent part (alternating chunks): 2-5 user tasks and 1-2 flusher tasks use the real BufferPoolManager under the seeded scheduler; every page has one owning task (the only writer), so each fetch has an exact expected content; pools a few frames larger than the pins that can be held, so frames are evicted, re-read, flushed, deallocated and re-allocated while other tasks hold pins",
    technique="seeded new/fetch/modify/unpin/flush/deallocate sequences on the real BufferPoolManager (file-backed and in-memory disk managers, pools of 1-8 frames) against a pageID->bytes model; concurrent part under the seeded scheduler (deterministic simulation: preemption at every latch, mutex and disk call) with single-writer pages and exact expected bytes",
    assumptions=["operations the pool must refuse (all frames pinned) are generated only when the model says a frame is available, so a nil page or a 'Victim' panic means a lost frame",
                 "a user unpins its own pins before deallocating a page",
                 "concurrent part: a task that changed a pinned page releases the pin with dirty=true; pool size >= tasks x (held pins + 1 transient pin) + flushers + 1"])
CON_RULE = ("one evaluation = one simulated concurrent execution: client tasks, the request manager loop, one worker task per request and "
            "(in half of the runs) the checkpoint and statistics threads all run under the seeded scheduler (policies: uniform random, "
            "sticky, PCT with 1-4 change points, round-robin), with the virtual clock advanced at decision points so that the 30 s / 10 s "
            "timers fire inside foreground operations; blocking primitives, channels, go statements and timers of the engine are the "
            "substituted ones. distinct = distinct (workload, schedule trace) pairs; non-trivial = at least one preemption happened")
PROPS["C12"] = dict(driver="consim", budget=dict(quick=60, thorough=1500), chunk=40, rule=CON_RULE,
    technique="deterministic simulation under a seeded scheduler; histories stamped with the scheduler's global step counter and checked for linearizability with porcupine (no-row-change workload) and for exactly-once effects (insert/delete/update workload); exact deadlock detection and a step budget for progress",
    assumptions=["preemption happens at synchronisation, channel, disk and yield points, not between arbitrary instructions",
                 "progress: a run must finish within 600,000 scheduler steps and 6 simulated hours; deadlock is detected exactly (no runnable task, no pending timer)",
                 "porcupine results of Unknown (20 s timeout) are counted, never reported"])
TXN_RULE = ("one evaluation = one set of 2-3 (txnsim) or 2-12 (consim) multi-statement transaction programs over 2-5 rows with unique "
            "written values (reads through index and scan paths, read-modify-write on the row read, write skew shapes, range reads and "
            "writes, inserts/deletes, explicit aborts). txnsim: single driver, statement-granularity interleavings enumerated "
            "completely when there are at most 40 (quick) / 300 (thorough), sampled without replacement otherwise; consim: one task per "
            "transaction under the seeded scheduler (sub-statement interleavings). distinct = distinct (interleaving, per-transaction "
            "outcome) signature; every run is non-trivial")
for _p in ("C04", "C05"):
    PROPS[_p] = dict(driver="txnsim+consim", budget=dict(quick=60, thorough=1500), chunk=40, rule=TXN_RULE,
        technique="deterministic simulation: statement-level interleavings enumerated by a single driver plus sub-statement interleavings under the seeded scheduler; " + ("visibility oracle over read windows (dirty / stale / hidden / own-write)" if _p == "C04" else "item-level direct serialization graph (ww/wr/rw edges from unique values), cycle search, final state vs committed writes in commit order"),
        assumptions=["rows that newly match a predicate (phantoms) are exempt, as the property says",
                     "version order of a row = commit-return order of its committed writers (strict 2PL)",
                     "sub-statement level: a returned version must belong to a transaction whose commit had begun when the read returned and must not have been overwritten by a commit that returned before the read was invoked"])
PROPS["C17"] = dict(driver="idxsim+consim", budget=dict(quick=60, thorough=1500), chunk=40, rule=UNIT_RULE + "; the concurrent part (consim 'index' workload) runs 2-6 tasks with disjoint key sets that interleave in key space under the seeded scheduler",
    technique="seeded operation sequences through index.Index (skip list, unique skip list, B-tree, hash) on a small real buffer pool against a sorted multimap; concurrent part under the seeded scheduler with exact per-task expectations and the sound range-scan rule",
    assumptions=["hash index: fixed documented capacity (<= 1200 entries generated) and no UpdateEntry (it panics 'not implemented'; not generated)",
                 "varchar keys stay below 200 bytes",
                 "concurrent part: tasks own disjoint key sets, so each completed operation has an exact expected answer without a linearizability search; range scans must return every never-touched entry exactly once, in order, and nothing that was never inserted"])
PROPS["C19"] = dict(driver="consim", race=True, gomaxprocs=4, budget=dict(quick=90, thorough=1500), chunk=15, rule=CON_RULE + "; built with -race: the race detector is the oracle, a report is one unsynchronised access pair; in scope = the racing memory is page bytes/header, pool tables, lock tables and lock sets, log manager state, index nodes or catalog maps (decided by the innermost repository frames)",
    technique="deterministic simulation under the seeded scheduler with the Go race detector as oracle: token hand-off by raw futex in //go:norace code adds no happens-before edges, so the detector sees exactly the engine's own synchronisation while schedules are chosen and replayable",
    assumptions=["control flags (isCheckpointActive, isUpdaterActive, isExecutionActive, isEnableLogging) are out of the property's scope and only counted",
                 "the race detector reasons by happens-before, so a racing pair is reported whenever both accesses are executed without a synchronisation path between them, not only when they overlap",
                 "parked tasks are not killed in race builds (their deferred code would run unsynchronised); worker processes are recycled every 15 runs"])

