# property table for /verif/check: driver, budgets (seconds of exploration after the build), evidence text
CRASH_RULE = ("one evaluation = one seeded simulated history (swarm-drawn schema, pool size, row widths, transaction slots, abort/"
              "checkpoint/auto-commit mix) executed by a single driver against the real engine with every WritePage/WriteLog/"
              "GCLogFile recorded at the DiskManager seam, followed by a restart of the real engine on crash images cut from the "
              "recording (every prefix after set-up when <= max_images I/O events, else all commit/abort/checkpoint windows plus a "
              "seeded sample; torn variants of the last write; nested crashes inside the recovery run). distinct = distinct "
              "signature (op kinds + per-op outcome + sequence of I/O kinds); non-trivial = at least one crash image was "
              "recovered and compared with the model")
PROPS = {
 "C01": dict(driver="crashsim", budget=dict(quick=75, thorough=1500), chunk=8, rule=CRASH_RULE,
             technique="deterministic simulation: recorded I/O trace, crash/torn-write fault injection at every prefix, reference-model oracle",
             assumptions=["crash model: ordered prefix of page and log writes, optionally with the final write torn (512-byte sectors / byte-granular log tail); loss or reordering of un-fsynced page writes is not modelled",
                          "crash points before the first start-up completed (bootstrap of an empty database) are not explored",
                          "the reference model applies a statement's effect to committed data plus the transaction's own writes; a statement the engine refuses aborts the transaction"]),
 "C02": dict(driver="crashsim", budget=dict(quick=75, thorough=1500), chunk=8, rule=CRASH_RULE,
             technique="deterministic simulation: recorded I/O trace, crash/torn-write fault injection at every prefix, reference-model oracle",
             assumptions=["same crash model as C01", "a difference is attributed to C02 when the surviving/missing row version belongs to a transaction that had not committed at the crash point, otherwise to C01"]),
 "C08": dict(driver="crashsim", budget=dict(quick=45, thorough=900), chunk=20, rule=CRASH_RULE.replace("followed by a restart", "checked by the M-WAL seam monitor (every WritePage/WriteLog/commit-return of the run); for the crash properties followed by a restart"),
             technique="deterministic simulation with a seam monitor over the recorded I/O trace (independent log decoder)",
             assumptions=["a heap page's embedded LSN of 0 means never stamped", "LSNs are handed out and flushed in order, so a page LSN is durable iff it is <= the highest LSN seen in WriteLog payloads so far"]),
 "C20": dict(driver="crashsim", budget=dict(quick=75, thorough=1500), chunk=8, rule=CRASH_RULE,
             technique="deterministic simulation: nested crash injection inside the recovery run's own I/O trace",
             assumptions=["same crash model as C01", "only images whose single-crash recovery is already correct are nested, so a C20 violation is a failure that needs the second crash"]),
}
