#!/bin/bash
# tools/run_all.sh <tier> <seed> [jobs] [props...]: run the registered checks one after the other, one summary line each
tier=${1:-quick}; seed=${2:-20260925}; jobs=${3:-16}; shift 3 2>/dev/null
props=${@:-C01 C02 C03 C04 C05 C06 C07 C08 C09 C10 C11 C12 C13 C14 C15 C16 C17 C19 C20}
for p in $props; do
  s=$(date +%s)
  ./check $p --tier $tier --seed $seed --jobs $jobs --no-evidence > out_${tier}_${seed}_$p.log 2>&1
  rc=$?
  echo "$p rc=$rc wall=$(( $(date +%s)-s )) violations=$(grep -c '^VIOLATION' out_${tier}_${seed}_$p.log) $(grep '^check ' out_${tier}_${seed}_$p.log | cut -c1-170)"
  grep -A2 '^VIOLATION' out_${tier}_${seed}_$p.log | cut -c1-400 | head -12
done
echo ALLDONE
