#!/bin/bash
# tools/trymut.sh <worktree> <prop> [budget-seconds] [seed]: run a check against a scratch worktree of the repository
W=$1; P=$2; B=${3:-60}; S=${4:-20260925}
cd /verif && VERIF_REPO=$W timeout 3000 ./check $P --budget $B --seed $S --no-evidence 2>&1 | grep -v "^KNOWN" | tail -8 | cut -c1-500
