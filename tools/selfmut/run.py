#!/usr/bin/env python3
"""Sensitivity self-test: apply a deliberate property-breaking edit to /repo (working tree only),
run the named checks with a small budget, expect exit 1 (VIOLATION), revert.  usage: run.py [name ...]"""
import subprocess, sys, os, json, time
R = "/repo/lib/"
MUTS = {
 "drop-flush-before-evict": dict(file="storage/buffer/buffer_pool_manager.go", props=["C08", "C02"],
    old="\t\t\t} else if currentPage.IsDirty() {\n\t\t\t\tb.logManager.Flush()\n\t\t\t\tcurrentPage.WLatch()\n\t\t\t\tdata := currentPage.Data()",
    new="\t\t\t} else if currentPage.IsDirty() {\n\t\t\t\tcurrentPage.WLatch()\n\t\t\t\tdata := currentPage.Data()"),
 "drop-flush-in-commit": dict(file="storage/access/transaction_manager.go", props=["C08", "C01"],
    old="\t\tif !isReadOnlyTxn {\n\t\t\ttransactionManager.logManager.Flush()\n\t\t}", new="\t\tif !isReadOnlyTxn && len(writeSet) > 100 {\n\t\t\ttransactionManager.logManager.Flush()\n\t\t}"),
 "skip-rollbackdelete-in-abort": dict(file="storage/access/transaction_manager.go", props=["C03"],
    old="\t\t\t// rollback record data\n\t\t\ttable.RollbackDelete(item.rid1, txn)\n\t\t\t// index entries were never deleted", new="\t\t\t// rollback record data\n\t\t\t// index entries were never deleted"),
 "upgrade-ignores-other-holders": dict(file="storage/access/lock_manager.go", props=["C16", "C05"],
    old="\t\t\tif len(txnIds) != 1 {", new="\t\t\tif len(txnIds) < 1 {"),
 "applydelete-offset-fixup-skips-marked": dict(file="storage/access/table_page.go", props=["C15"],
    old="\t\tif tp.GetTupleSize(uint32(ii)) != 0 && tupleOffsetII < tupleOffset {", new="\t\tif tp.GetTupleSize(uint32(ii)) != 0 && !IsDeleted(tp.GetTupleSize(uint32(ii))) && tupleOffsetII < tupleOffset {"),
 "skip-unpin-in-gettuple": dict(file="storage/access/table_heap.go", props=["C14"],
    old="\tret, err := page.GetTuple(rid, t.logManager, t.lockManager, txn)\n\tpage.RUnlatch()\n\tt.bpm.UnpinPage(page.GetPageID(), false)",
    new="\tret, err := page.GetTuple(rid, t.logManager, t.lockManager, txn)\n\tpage.RUnlatch()\n\tif err == nil {\n\t\tt.bpm.UnpinPage(page.GetPageID(), false)\n\t}"),
 "requeue-and-answer": dict(file="samehada/request_manager.go", props=["C12"],
    old="\t\t\t\t\treqManager.handleAbortedByCCTxn(recvVal)\n\t\t\t\t\treqManager.queMutex.Unlock()", new="\t\t\t\t\treqManager.handleAbortedByCCTxn(recvVal)\n\t\t\t\t\treqManager.queMutex.Unlock()\n\t\t\t\t\tif len(reqManager.execQue) >= 0 {\n\t\t\t\t\t\t*recvVal.callerCh <- recvVal\n\t\t\t\t\t}"),
 "redo-lsn-guard-inverted": dict(file="recovery/log_recovery/log_recovery.go", props=["C20", "C01"],
    old="\t\t\t\tif pg.GetLSN() < logRecord.GetLSN() {\n\t\t\t\t\tpg.ApplyDelete(", new="\t\t\t\tif pg.GetLSN() <= logRecord.GetLSN()+1 {\n\t\t\t\t\tpg.ApplyDelete("),
 "skip-key-revalidation-point-scan": dict(file="execution/executors/point_scan_with_index_executor.go", props=["C04"],
    old="\t\tif !tpl.GetValue(sch, colIdxOfPred).CompareEquals(*scanKey) {", new="\t\tif false && !tpl.GetValue(sch, colIdxOfPred).CompareEquals(*scanKey) {"),
 "log-wrap-header-lost": dict(file="recovery/log_manager.go", props=["C01"],
    old="\t\tlogMgr.latch.WLock()\n\t\tcopy(logMgr.logBuffer[logMgr.offset:], logRecord.GetLogHeaderData())\n\t}", new="\t\tlogMgr.latch.WLock()\n\t}"),
 "no-shared-lock-in-heap-gettuple": dict(file="storage/access/table_heap.go", props=["C04", "C05"],
    old="\t\tif !txn.IsSharedLocked(rid) && !txn.IsExclusiveLocked(rid) && !t.lockManager.LockShared(txn, rid) {", new="\t\tif false && !txn.IsSharedLocked(rid) && !txn.IsExclusiveLocked(rid) && !t.lockManager.LockShared(txn, rid) {"),
 "remove-wlatch-updatetuple": dict(file="storage/access/table_heap.go", props=["C19"],
    old="\tpg.WLatch()\n\tpg.AddWLatchRecord(int32(txn.txnID))\n\tisUpdated, err, needFollowTuple := pg.UpdateTuple(", new="\tpg.AddWLatchRecord(int32(txn.txnID))\n\tisUpdated, err, needFollowTuple := pg.UpdateTuple(",
    old2="\tpg.RemoveWLatchRecord(int32(txn.txnID))\n\tpg.WUnlatch()\n\n\tvar newRID *page.RID", new2="\tpg.RemoveWLatchRecord(int32(txn.txnID))\n\n\tvar newRID *page.RID"),
 "index-entry-not-removed-on-commit-delete": dict(file="storage/access/transaction_manager.go", props=["C07"],
    old="\t\t\t\t\tif idx != nil {\n\t\t\t\t\t\tidx.DeleteEntry(item.tuple1, *item.rid1, txn)\n\t\t\t\t\t}\n\t\t\t\t}\n\t\t\t}\n\t\t} else if item.wtype == UPDATE {\n\t\t\tif common.EnableDebug && common.ActiveLogKindSetting&common.CommitAbortHandleInfo > 0 {\n\t\t\t\tfmt.Printf(\"TransactionManager::Commit handle UPDATE",
    new="\t\t\t\t\tif idx != nil && idx.GetKeyAttrs()[0] == 0 {\n\t\t\t\t\t\tidx.DeleteEntry(item.tuple1, *item.rid1, txn)\n\t\t\t\t\t}\n\t\t\t\t}\n\t\t\t}\n\t\t} else if item.wtype == UPDATE {\n\t\t\tif common.EnableDebug && common.ActiveLogKindSetting&common.CommitAbortHandleInfo > 0 {\n\t\t\t\tfmt.Printf(\"TransactionManager::Commit handle UPDATE"),
 "graceful-shutdown-skips-dirty-flush": dict(file="samehada/samehada_instance.go", props=["C09"],
    old="\t\tsi.bpm.FlushAllDirtyPages()\n\t\tlogRecord := recovery.NewLogRecordGracefulShutdown()", new="\t\tif si.bpm.GetPoolSize() < 20 {\n\t\t\tsi.bpm.FlushAllDirtyPages()\n\t\t}\n\t\tlogRecord := recovery.NewLogRecordGracefulShutdown()"),
 "hash-join-drops-duplicate-build-keys": dict(file="execution/executors/hash_join_executor.go", props=["C11"],
    old="\t\tif !valueAsKey.IsNull() {\n\t\t\te.jht.Insert(hash.HashValue(&valueAsKey), &tmpTuple)", new="\t\tif !valueAsKey.IsNull() && len(e.jht.GetValue(hash.HashValue(&valueAsKey))) < 3 {\n\t\t\te.jht.Insert(hash.HashValue(&valueAsKey), &tmpTuple)"),
 "bpm-skip-writeback-of-dirty-victim-newpage": dict(file="storage/buffer/buffer_pool_manager.go", props=["C13"],
    old="\t\t\t\tb.diskManager.WritePage(currentPage.GetPageID(), data[:])\n\t\t\t\tcurrentPage.RemoveWLatchRecord(-2)", new="\t\t\t\tif currentPage.GetPageID()%5 != 3 {\n\t\t\t\t\tb.diskManager.WritePage(currentPage.GetPageID(), data[:])\n\t\t\t\t}\n\t\t\t\tcurrentPage.RemoveWLatchRecord(-2)"),
 "catalog-reload-misses-last-column": dict(file="catalog/table_catalog.go", props=["C10"],
    old="\t\t\tif tableOid != oid {\n\t\t\t\tcontinue\n\t\t\t}", new="\t\t\tif tableOid != oid || (oid > 2 && len(columns) >= 3) {\n\t\t\t\tcontinue\n\t\t\t}"),
 "skiplist-delete-keeps-entry-sometimes": dict(file="storage/index/skip_list_index.go", props=["C17", "C07"],
    old="func (slidx *SkipListIndex) DeleteEntry(key *tuple.Tuple, rid page.RID, txn interface{}) {\n", new="func (slidx *SkipListIndex) DeleteEntry(key *tuple.Tuple, rid page.RID, txn interface{}) {\n\tif rid.GetSlotNum()%11 == 7 {\n\t\treturn\n\t}\n"),
}
def sh(cmd, **kw): return subprocess.run(cmd, shell=True, capture_output=True, text=True, **kw)
names = sys.argv[1:] or list(MUTS)
budget = os.environ.get("SELFMUT_BUDGET", "40")
results = {}
for n in names:
    m = MUTS[n]; p = R + m["file"]; src = open(p).read()
    if m["old"] not in src or ("old2" in m and m["old2"] not in src):
        print(f"{n}: PATTERN NOT FOUND (tree changed?)"); results[n] = "pattern-missing"; continue
    new = src.replace(m["old"], m["new"], 1)
    if "old2" in m: new = new.replace(m["old2"], m["new2"], 1)
    open(p, "w").write(new)
    try:
        b = sh("cd /repo/lib && GOFLAGS=-mod=mod GOPROXY=off GOSUMDB=off GOTOOLCHAIN=local go build ./...")
        if b.returncode != 0:
            print(f"{n}: mutant does not compile: {b.stderr[-300:]}"); results[n] = "no-compile"; continue
        for prop in m["props"]:
            t0 = time.time()
            r = sh(f"cd /verif && timeout 1500 ./check {prop} --budget {budget} --no-evidence")
            viol = [l for l in r.stdout.splitlines() if l.startswith("VIOLATION")]
            det = [l for l in r.stdout.splitlines() if l.strip().startswith("class=")]
            print(f"{n} -> {prop}: exit={r.returncode} violations={len(viol)} ({time.time()-t0:.0f}s) {det[0].strip()[:150] if det else ''}", flush=True)
            results[f"{n}->{prop}"] = r.returncode
    finally:
        open(p, "w").write(src)
sh("git -C /repo checkout -- .")
print(json.dumps(results))
