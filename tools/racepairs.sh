#!/bin/bash
# discovery helper: list distinct in-scope race site pairs over a seed range (race build)
cd /verif; HR=$(tools/simbuild.sh -race 2>/dev/null)
D=$(mktemp -d -p /dev/shm racepairs.XXXX)
for s in "$@"; do
  for st in 0 15 30 45 60 75 90 105; do
    GORACE="halt_on_error=0 exitcode=0 history_size=3 log_path=$D/r" GOMAXPROCS=2 $HR consim -prop C19 -seed $s -start $st -runs 15 -minimise=false 2>/dev/null > $D/out.$s.$st &
  done
  wait
done; cat $D/out.* | grep "^RUN" | python3 -c "
import sys,json,collections
c=collections.Counter()
for l in sys.stdin:
    r=json.loads(l[4:])
    for v in r.get('violations',[]): c[v['violation']['site']]+=1
for k,v in c.most_common(): print(v,k)
"
rm -rf $D
