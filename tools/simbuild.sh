#!/bin/bash
# simbuild.sh [-race] : copy /repo/lib (current working tree) + cached bltree module into a scratch
# directory, instrument the copy with simrewrite, build /verif/harness against it, and print the
# path of the resulting binary. Content-addressed cache under /verif/.cache (key = hash of every
# input file), so an unchanged tree costs nothing and an edited tree is always rebuilt.
# exit 0 + path on stdout; exit 2 on any failure (never 1: 1 is reserved for violations).
set -u
RACE=""
if [ "${1:-}" = "-race" ]; then RACE="-race"; fi
VERIF=/verif
REPO=${VERIF_REPO:-/repo}
export GOFLAGS=-mod=mod GOPROXY=off GOSUMDB=off GOTOOLCHAIN=local GONOSUMCHECK=1 GONOSUMDB='*' GOFLAGS=-mod=mod
BLTREE=$(go env GOMODCACHE)/github.com/ryogrid/bltree-go-for-embedding@v1.0.11
fail() { echo "simbuild: $*" >&2; exit 2; }
[ -d "$REPO/lib" ] || fail "no $REPO/lib"
[ -d "$BLTREE" ] || fail "bltree module not in module cache"

key=$( { cd "$REPO/lib" && find . -type f \( -name '*.go' -o -name go.mod -o -name go.sum \) ! -name '*_test.go' -print0 | sort -z | xargs -0 sha256sum; \
         cd "$VERIF" && find simrt harness tools/simrewrite tools/simbuild.sh -type f \( -name '*.go' -o -name '*.tmpl' -o -name go.mod -o -name '*.sh' \) -print0 | sort -z | xargs -0 sha256sum; \
         go version; echo "race=$RACE"; } | sha256sum | cut -c1-24 )
CACHE=$VERIF/.cache
OUT=$CACHE/$key
if [ -x "$OUT/harness" ]; then touch "$OUT"; echo "$OUT/harness"; exit 0; fi
mkdir -p "$CACHE" "$VERIF/.bin"

# one build at a time
exec 9>"$CACHE/.lock"
flock 9
if [ -x "$OUT/harness" ]; then echo "$OUT/harness"; exit 0; fi

# the rewriter itself
if [ ! -x "$VERIF/.bin/simrewrite" ] || [ -n "$(find $VERIF/tools/simrewrite -name '*.go' -newer $VERIF/.bin/simrewrite)" ]; then
  (cd $VERIF/tools/simrewrite && go build -o $VERIF/.bin/simrewrite . ) >&2 || fail "cannot build simrewrite"
fi

BASE=${VERIF_SCRATCH:-}
if [ -z "$BASE" ]; then if [ -w /dev/shm ]; then BASE=/dev/shm; else BASE=${TMPDIR:-/tmp}; fi; fi
S=$(mktemp -d -p "$BASE" verif-build.XXXXXX) || fail "mktemp"
if [ -z "${VERIF_KEEP:-}" ]; then trap 'rm -rf "$S"' EXIT; else echo "simbuild: keeping $S" >&2; fi

rsync -a --exclude '*_test.go' "$REPO/lib/" "$S/lib/" || fail "copy lib"
mkdir -p "$S/bltree" && cp -r "$BLTREE/." "$S/bltree/" && chmod -R u+w "$S/bltree" || fail "copy bltree"
find "$S/bltree" -name '*_test.go' -delete
rm -f "$S/bltree/bltree_test_util.go"
(cd "$S/bltree" && go mod edit -droprequire github.com/ryogrid/SamehadaDB/lib) || fail "bltree go.mod"

"$VERIF/.bin/simrewrite" -dir "$S/lib" -skipfile common/assert.go -manifest "$S/lib.manifest.json" >&2 || fail "rewriter failed on lib (construct without a rule, or tree does not type-check)"
NP=$(python3 -c "import json;print(len(json.load(open('$S/lib.manifest.json'))['probes']))")
"$VERIF/.bin/simrewrite" -dir "$S/bltree" -probebase "$NP" -manifest "$S/bltree.manifest.json" >&2 || fail "rewriter failed on bltree"
cp "$VERIF/simrt/inject/disk_zz_simdisk.go.tmpl" "$S/lib/storage/disk/zz_simdisk.go" || fail "inject"

mkdir -p "$S/harness"
cp "$VERIF"/harness/*.go "$S/harness/" || fail "copy harness"
cat > "$S/harness/go.mod" <<EOF
module verif/harness

go 1.21

require (
	github.com/anishathalye/porcupine v1.3.0
	github.com/ryogrid/SamehadaDB/lib v0.0.0
	github.com/ryogrid/bltree-go-for-embedding v1.0.11
	verif/simrt v0.0.0
)

replace github.com/ryogrid/SamehadaDB/lib => $S/lib

replace github.com/ryogrid/bltree-go-for-embedding => $S/bltree

replace verif/simrt => $VERIF/simrt
EOF
cp "$REPO/lib/go.sum" "$S/harness/go.sum"
mkdir -p "$OUT.tmp"
(cd "$S/harness" && go build -trimpath $RACE -o "$OUT.tmp/harness" . ) >&2 || { rm -rf "$OUT.tmp"; fail "harness build failed"; }
cp "$S/lib.manifest.json" "$S/bltree.manifest.json" "$OUT.tmp/"
rm -rf "$OUT"; mv "$OUT.tmp" "$OUT"
# prune: beyond the 6 most recent entries, remove those not used for 3 hours (a running check
# touches its entry while it runs, so a binary in use is never removed under it)
ls -1dt "$CACHE"/*/ 2>/dev/null | grep -v '/logs/$' | tail -n +7 | while read -r d; do
  if [ -n "$(find "$d" -maxdepth 0 -mmin +180 2>/dev/null)" ]; then rm -rf "$d"; fi
done
echo "$OUT/harness"
